import Model.Layers
import Model.Objective
import Model.Optimizer

/-!
# Feedback blocks and the network (`src/feedback.rs`, `src/network.rs`): construction, forward,
backward, update

`HashMap`s are association lists with insert-overwrites semantics.  Where the Rust code iterates a map
and the result would depend on the iteration order (two skip connections sharing a source in
`Network::backward`) the model returns `Err.ambiguous`.
-/

inductive Accumulation
  | add | subtract | multiply | overwrite | mean
  deriving Repr, DecidableEq, Inhabited

/-- layers that may appear inside a feedback block (nested blocks are rejected by the Rust code) -/
inductive InnerLayer (α : Type)
  | dense (l : DenseLayer α)
  | conv (l : Conv α)
  | deconv (l : Deconv α)
  | maxpool (l : Maxpool α)

structure Feedback (α : Type) where
  inputs : Shape
  outputs : Shape
  optimizer : Optimizer α
  flatten : Bool
  layers : List (InnerLayer α)
  /-- target position ↦ source positions inside the unrolled block -/
  connect : List (Nat × List Nat)
  accumulation : Accumulation
  coupled : List (List Nat)

inductive Layer (α : Type)
  | dense (l : DenseLayer α)
  | conv (l : Conv α)
  | deconv (l : Deconv α)
  | maxpool (l : Maxpool α)
  | feedback (l : Feedback α)

variable {α : Type} [Scalar α]
open Scalar

/-- association-list lookup / insert (insert replaces an existing key) -/
def Assoc.find? {β : Type} (m : List (Nat × β)) (k : Nat) : Option β :=
  match m with
  | [] => none
  | (k', v) :: rest => if k' = k then some v else Assoc.find? rest k

def Assoc.insert {β : Type} (m : List (Nat × β)) (k : Nat) (v : β) : List (Nat × β) :=
  match m with
  | [] => [(k, v)]
  | (k', v') :: rest => if k' = k then (k, v) :: rest else (k', v') :: Assoc.insert rest k v

namespace InnerLayer

def inputs : InnerLayer α → Shape
  | .dense l => l.inputs | .conv l => l.inputs | .deconv l => l.inputs | .maxpool l => l.inputs
def outputs : InnerLayer α → Shape
  | .dense l => l.outputs | .conv l => l.outputs | .deconv l => l.outputs | .maxpool l => l.outputs

def setTraining (t : Bool) : InnerLayer α → InnerLayer α
  | .dense l => .dense { l with training := t }
  | .conv l => .conv { l with training := t }
  | .deconv l => .deconv { l with training := t }
  | .maxpool l => .maxpool l

def training : InnerLayer α → Bool
  | .dense l => l.training | .conv l => l.training | .deconv l => l.training | .maxpool _ => false

/-- the dropout flag of an inner layer, if it has one (a max-pool has none) -/
def flag? : InnerLayer α → Option Bool
  | .dense l => some l.training | .conv l => some l.training | .deconv l => some l.training | .maxpool _ => none

def parameters : InnerLayer α → Except Err Nat
  | .dense l => l.parameters
  | .conv l => .ok l.parameters
  | .deconv l => .ok l.parameters
  | .maxpool _ => .ok 0

/-- forward of one plain layer → `(pre, post, max indices?)` -/
def forward (l : InnerLayer α) (x : Tensor α) : Except Err (Tensor α × Tensor α × Option MaxIdx) :=
  match l with
  | .dense d => match d.forward x with | .ok (a, b) => .ok (a, b, none) | .error e => .error e
  | .conv d => match d.forward x with | .ok (a, b) => .ok (a, b, none) | .error e => .error e
  | .deconv d => match d.forward x with | .ok (a, b) => .ok (a, b, none) | .error e => .error e
  | .maxpool d => match d.forward x with | .ok (a, b, m) => .ok (a, b, some m) | .error e => .error e

end InnerLayer

/-- accumulate one skip source into `x` (`add_inplace` / `sub_inplace` / `mul_inplace`) -/
def accumulate1 (acc : Accumulation) (x y : Tensor α) : Except Err (Tensor α) :=
  match acc with
  | .add => x.add y
  | .subtract => x.sub y
  | .multiply => x.mul y
  | .overwrite => .ok y
  | .mean => x.mean [y]

/-- accumulate a list of sources the way `Feedback::forward` does: one after the other for
    add/sub/mul, the last one for overwrite, all at once for mean -/
def accumulateMany (acc : Accumulation) (x : Tensor α) (ys : List (Tensor α)) : Except Err (Tensor α) :=
  match acc with
  | .add => ys.foldl (fun r y => match r with | .ok t => t.add y | .error e => .error e) (.ok x)
  | .subtract => ys.foldl (fun r y => match r with | .ok t => t.sub y | .error e => .error e) (.ok x)
  | .multiply => ys.foldl (fun r y => match r with | .ok t => t.mul y | .error e => .error e) (.ok x)
  | .overwrite => match ys.getLast? with
    | some y => .ok y
    | none => .error .index      -- `.last().unwrap()` on an empty source list
  | .mean => x.mean ys           -- asserts a non-empty list

namespace Feedback

/-- `Feedback::create` (after the repair of D13: an output-skip entry is only registered when it has
    sources, i.e. `loops ≥ 2`) -/
def create (layers : List (InnerLayer α)) (loops : Nat) (inskips outskips : Bool) (acc : Accumulation) :
    Except Err (Feedback α) :=
  if loops = 0 then .error .reject else
  match layers.head?, layers.getLast? with
  | some first, some last =>
    if first.inputs ≠ last.outputs then .error .shape else
    let length := layers.length
    let unrolled := (List.range loops).flatMap (fun _ => layers)
    let coupled := (List.range length).map (fun l => (List.range loops).map (fun i => l + i * length))
    let srcs := (List.range loops).tail.map (fun i => i * length)
    let c1 : List (Nat × List Nat) := if inskips then srcs.map (fun t => (t, [0])) else []
    let c2 : List (Nat × List Nat) := if outskips ∧ srcs ≠ [] then [(loops * length, srcs)] else []
    .ok { inputs := first.inputs, outputs := last.outputs,
          optimizer := ⟨.sgd (lit 1 (-1)) none, [], [], []⟩, flatten := false,
          layers := unrolled, connect := c1 ++ c2, accumulation := acc, coupled := coupled }
  | _, _ => .error .index

def setTraining (f : Feedback α) (t : Bool) : Feedback α :=
  { f with layers := f.layers.map (InnerLayer.setTraining t) }

/-- `Feedback::parameters`: the first repetition only -/
def parameters (f : Feedback α) : Except Err Nat :=
  (f.layers.take f.coupled.length).foldl (fun acc l =>
    match acc, l.parameters with
    | .ok a, .ok b => .ok (a + b)
    | .error e, _ => .error e
    | _, .error e => .error e) (.ok 0)

/-- the input position `pos` of the unrolled block processes: the previous output, combined with the
    skip sources registered for that position -/
def skipped (f : Feedback α) (act : List (Tensor α)) (pos : Nat) (x0 : Tensor α) : Except Err (Tensor α) :=
  match Assoc.find? f.connect pos with
  | none => .ok x0
  | some srcs =>
    match L.mapM' (fun i => L.get act i) srcs with
    | .error e => .error e
    | .ok ys => accumulateMany f.accumulation x0 ys

/-- one position of the unrolled forward pass -/
def forwardStep (f : Feedback α)
    (st : Except Err (List (Tensor α) × List (Tensor α) × List (Option MaxIdx))) (il : Nat × InnerLayer α) :
    Except Err (List (Tensor α) × List (Tensor α) × List (Option MaxIdx)) :=
  match st with
  | .error e => .error e
  | .ok (un, act, mx) =>
    match act.getLast? with
    | none => .error .index
    | some x0 =>
      match skipped f act il.1 x0 with
      | .error e => .error e
      | .ok x =>
        if il.2.inputs ≠ x.shape then .error .shape else
        match il.2.forward x with
        | .error e => .error e
        | .ok (pre, post, m) => .ok (un ++ [pre], act ++ [post], mx ++ [m])

/-- the unrolled forward pass; returns every pre-activation, every activation (the block input first,
    the — possibly skip-combined and flattened — block output last) and the max-pool indices -/
def forwardAll (f : Feedback α) (input : Tensor α) :
    Except Err (List (Tensor α) × List (Tensor α) × List (Option MaxIdx)) :=
  match (List.zip (List.range f.layers.length) f.layers).foldl (forwardStep f) (.ok ([], [input], [])) with
  | .error e => .error e
  | .ok (un, act, mx) =>
    match act.getLast?, un.head? with
    | some last0, some _ =>
      let act' := act.dropLast
      match skipped f act' f.layers.length last0 with
      | .error e => .error e
      | .ok last =>
        let out : Except Err (Tensor α) := if f.flatten then last.flatten else .ok last
        match out with
        | .error e => .error e
        | .ok out => .ok (un, act' ++ [out], mx)
    | _, _ => .error .index

/-- `Feedback::forward` as the network sees it: `(unactivated[0], output)` plus the recordings -/
def forward (f : Feedback α) (input : Tensor α) :
    Except Err (Tensor α × Tensor α × List (Tensor α) × List (Tensor α) × List (Option MaxIdx)) :=
  match forwardAll f input with
  | .error e => .error e
  | .ok (un, act, mx) =>
    match un.head?, act.getLast? with
    | some u0, some out => .ok (u0, out, un, act, mx)
    | _, _ => .error .index

/-- invert `{to: [from…]}` into `{from: [to…]}`; targets of one source keep the order in which the
    (sorted-by-target) entries list them — the Rust code adds the contributions, so the order only
    affects rounding -/
def invertConnect (c : List (Nat × List Nat)) : List (Nat × List Nat) :=
  c.foldl (fun acc e => e.2.foldl (fun acc src =>
    match Assoc.find? acc src with
    | some ts => Assoc.insert acc src (ts ++ [e.1])
    | none => Assoc.insert acc src [e.1]) acc) []

/-- add to the running gradient (last of `gs`) the gradient recorded for skip target `j` -/
def skipGradStep (n : Nat) (r : Except Err (List (Tensor α))) (j : Nat) : Except Err (List (Tensor α)) :=
  match r with
  | .error e => .error e
  | .ok gs =>
    let j' := if j = n then j - 1 else j
    match checkedSub n j' with
    | .error e => .error e
    | .ok d => match checkedSub d 1 with
      | .error e => .error e
      | .ok k =>
        match L.get gs k, gs.getLast? with
        | .ok g, some lastg =>
          match lastg.add g with
          | .ok s => .ok (gs.dropLast ++ [s])
          | .error e => .error e
        | .error e, _ => .error e
        | _, none => .error .index

/-- add the gradients of the positions this position's input was skipped to -/
def withSkips (n : Nat) (inv : List (Nat × List Nat)) (idx : Nat) (grads : List (Tensor α)) :
    Except Err (List (Tensor α)) :=
  match Assoc.find? inv idx with
  | none => .ok grads
  | some targets => targets.foldl (skipGradStep n) (.ok grads)

/-- backward of one unrolled inner layer (max-pool inside a block is not supported by the library) -/
def innerBackward (il : InnerLayer α) (g input output : Tensor α) :
    Except Err (Tensor α × Tensor α × Option (Tensor α)) :=
  match il with
  | .dense l => l.backward g input output
  | .conv l => l.backward g input output
  | .deconv l => l.backward g input output
  | .maxpool _ => .error .reject

/-- one position of the reverse walk over the unrolled block -/
def backwardStep (n : Nat) (inv : List (Nat × List Nat)) (unactivated activated : List (Tensor α))
    (st : Except Err (List (Tensor α) × List (Tensor α) × List (Option (Tensor α)))) (il : Nat × InnerLayer α) :
    Except Err (List (Tensor α) × List (Tensor α) × List (Option (Tensor α))) :=
  match st with
  | .error e => .error e
  | .ok (grads, wgs, bgs) =>
    match L.get activated il.1, L.get unactivated il.1 with
    | .error e, _ => .error e
    | _, .error e => .error e
    | .ok input, .ok output =>
      match withSkips n inv il.1 grads with
      | .error e => .error e
      | .ok grads =>
        match grads.getLast? with
        | none => .error .index
        | some g =>
          match innerBackward il.2 g input output with
          | .error e => .error e
          | .ok (ig, wg, bg) => .ok (grads ++ [ig], wgs ++ [wg], bgs ++ [bg])

/-- `Feedback::backward` → `(input gradient, weight gradients, bias gradients)` of the unrolled block,
    last layer first -/
def backward (f : Feedback α) (gradient : Tensor α) (unactivated activated : List (Tensor α)) :
    Except Err (Tensor α × List (Tensor α) × List (Option (Tensor α))) :=
  match (List.zip (List.range f.layers.length) f.layers).reverse.foldl
      (backwardStep f.layers.length (invertConnect f.connect) unactivated activated) (.ok ([gradient], [], [])) with
  | .error e => .error e
  | .ok (grads, wgs, bgs) =>
    match grads.getLast? with
    | some g => .ok (g, wgs, bgs)
    | none => .error .index

end Feedback

namespace Layer

def inputs : Layer α → Shape
  | .dense l => l.inputs | .conv l => l.inputs | .deconv l => l.inputs | .maxpool l => l.inputs
  | .feedback l => l.inputs
def outputs : Layer α → Shape
  | .dense l => l.outputs | .conv l => l.outputs | .deconv l => l.outputs | .maxpool l => l.outputs
  | .feedback l => l.outputs

def ofInner : InnerLayer α → Layer α
  | .dense l => .dense l | .conv l => .conv l | .deconv l => .deconv l | .maxpool l => .maxpool l

def parameters : Layer α → Except Err Nat
  | .dense l => l.parameters
  | .conv l => .ok l.parameters
  | .deconv l => .ok l.parameters
  | .maxpool _ => .ok 0
  | .feedback l => l.parameters

def setTraining (t : Bool) : Layer α → Layer α
  | .dense l => .dense { l with training := t }
  | .conv l => .conv { l with training := t }
  | .deconv l => .deconv { l with training := t }
  | .maxpool l => .maxpool l
  | .feedback l => .feedback (l.setTraining t)

/-- the dropout flags of a layer (a feedback block has one per unrolled inner layer) -/
def flags : Layer α → List Bool
  | .dense l => [l.training]
  | .conv l => [l.training]
  | .deconv l => [l.training]
  | .maxpool _ => []
  | .feedback l => l.layers.filterMap InnerLayer.flag?

end Layer

/-- what a layer records in the forward pass besides pre/post: max-pool indices, or a feedback block's
    internal pre-activations and activations -/
inductive Recorded (α : Type)
  | none
  | max (m : MaxIdx)
  | block (unactivated activated : List (Tensor α)) (maxes : List (Option MaxIdx))

structure Network (α : Type) where
  input : Shape
  layers : List (Layer α)
  /-- `outof ↦ (into, iterations, inskips)` -/
  loopbacks : List (Nat × (Nat × Nat × Bool))
  loopaccumulation : Accumulation
  /-- `into ↦ infrom` -/
  connect : List (Nat × Nat)
  skipaccumulation : Accumulation
  optimizer : Optimizer α
  objective : Obj
  clamp : Option (α × α)

namespace Network

def new (input : Shape) : Network α :=
  { input := input, layers := [], loopbacks := [], loopaccumulation := .mean, connect := [],
    skipaccumulation := .add, optimizer := ⟨.sgd (lit 1 (-1)) none, [], [], []⟩, objective := .mse, clamp := none }

/-! ### construction (shape inference, flatten flags, rejection) -/

/-- output shape of the last layer, or the network's input shape -/
def lastOutputs (n : Network α) : Shape :=
  match n.layers.getLast? with
  | some l => l.outputs
  | none => n.input

/-- `Network::dense`: the previous spatial layer is told to flatten -/
def addDense (n : Network α) (outputs : Nat) (act : Act) (bias : Bool) (dropout : Option α)
    (weights : Tensor α) (biasT : Option (Tensor α)) : Except Err (Network α) :=
  let mk (inputs : Shape) : Layer α :=
    .dense { inputs := inputs, outputs := .single outputs, loops := 1, scale := fun x => 1 / x,
             weights := weights, bias := if bias then biasT else none, act := act, dropout := dropout,
             training := false }
  match n.layers.getLast? with
  | none =>
    match n.input with
    | .single _ => .ok { n with layers := [mk n.input] }
    | _ => .error .reject
  | some last =>
    let r : Except Err (Shape × Layer α) :=
      match last with
      | .dense l => .ok (l.outputs, last)
      | .conv l => match l.outputs with
        | .triple c h w => .ok (.single (c * h * w), .conv { l with flatten := true })
        | _ => .error .reject
      | .deconv l => match l.outputs with
        | .triple c h w => .ok (.single (c * h * w), .deconv { l with flatten := true })
        | _ => .error .reject
      | .maxpool l => match l.outputs with
        | .triple c h w => .ok (.single (c * h * w), .maxpool { l with flatten := true })
        | _ => .error .reject
      | .feedback l => match l.outputs with
        | .single _ => .ok (l.outputs, last)
        | .triple c h w => .ok (.single (c * h * w), .feedback { l with flatten := true })
        | _ => .error .reject
    match r with
    | .error e => .error e
    | .ok (inputs, last') =>
      -- `Dense::create` requires flat input and output shapes
      match inputs with
      | .single _ => .ok { n with layers := n.layers.dropLast ++ [last', mk inputs] }
      | _ => .error .reject

/-- the input shape a spatial layer records: 3-D as given, flat only if a perfect square (`1 × r × r`) -/
def spatialInputs (s : Shape) : Except Err (Shape × Nat) :=
  match s with
  | .single size =>
    match squareRoot α size with
    | .ok r => .ok (.triple 1 r r, 1)
    | .error e => .error e
  | .triple c _ _ => .ok (s, c)
  | _ => .error .unimplemented

def mkConv (inputs : Shape) (filters : Nat) (act : Act) (kernel stride padding dilation : Nat × Nat)
    (dropout : Option α) (kernels : List (Tensor α)) : Except Err (Conv α) :=
  match spatialInputs (α := α) inputs with
  | .error e => .error e
  | .ok (ins, _) =>
    match ins with
    | .triple _ ih iw =>
      match Conv.outputSize ih iw filters kernel stride padding dilation with
      | .error e => .error e
      | .ok outs => .ok { inputs := ins, outputs := outs, loops := 1, scale := fun x => 1 / x, kernels := kernels,
                          stride := stride, padding := padding, dilation := dilation, act := act,
                          dropout := dropout, flatten := false, training := false }
    | _ => .error .reject

def mkDeconv (inputs : Shape) (filters : Nat) (act : Act) (kernel stride padding : Nat × Nat)
    (dropout : Option α) (kernels : List (Tensor α)) : Except Err (Deconv α) :=
  match spatialInputs (α := α) inputs with
  | .error e => .error e
  | .ok (ins, _) =>
    match ins with
    | .triple _ ih iw =>
      match Deconv.outputSize ih iw filters kernel stride padding with
      | .error e => .error e
      | .ok outs => .ok { inputs := ins, outputs := outs, loops := 1, scale := fun x => 1 / x, kernels := kernels,
                          stride := stride, padding := padding, act := act,
                          dropout := dropout, flatten := false, training := false }
    | _ => .error .reject

def mkMaxpool (inputs : Shape) (kernel stride : Nat × Nat) : Except Err (Maxpool α) :=
  match spatialInputs (α := α) inputs with
  | .error e => .error e
  | .ok (ins, _) =>
    match ins with
    | .triple c ih iw =>
      match Maxpool.outputSize c ih iw kernel stride with
      | .error e => .error e
      | .ok outs => .ok { inputs := ins, outputs := outs, loops := 1, kernel := kernel, stride := stride, flatten := false }
    | _ => .error .reject

/-- a spatial layer may be first only if the network input is 3-D -/
def spatialFirstOk (n : Network α) : Bool :=
  match n.layers, n.input with
  | [], .triple .. => true
  | [], _ => false
  | _, _ => true

def addConv (n : Network α) (filters : Nat) (kernel stride padding dilation : Nat × Nat) (act : Act)
    (dropout : Option α) (kernels : List (Tensor α)) : Except Err (Network α) :=
  if !spatialFirstOk n then .error .reject else
  match mkConv n.lastOutputs filters act kernel stride padding dilation dropout kernels with
  | .error e => .error e
  | .ok l => .ok { n with layers := n.layers ++ [.conv l] }

def addDeconv (n : Network α) (filters : Nat) (kernel stride padding : Nat × Nat) (act : Act)
    (dropout : Option α) (kernels : List (Tensor α)) : Except Err (Network α) :=
  if !spatialFirstOk n then .error .reject else
  match mkDeconv n.lastOutputs filters act kernel stride padding dropout kernels with
  | .error e => .error e
  | .ok l => .ok { n with layers := n.layers ++ [.deconv l] }

def addMaxpool (n : Network α) (kernel stride : Nat × Nat) : Except Err (Network α) :=
  if !spatialFirstOk n then .error .reject else
  match mkMaxpool (α := α) n.lastOutputs kernel stride with
  | .error e => .error e
  | .ok l => .ok { n with layers := n.layers ++ [.maxpool l] }

/-- description of a layer inside a feedback block (`feedback::Layer`), with its parameters -/
inductive InnerSpec (α : Type)
  | dense (outputs : Nat) (act : Act) (bias : Bool) (dropout : Option α) (w : Tensor α) (b : Option (Tensor α))
  | conv (filters : Nat) (act : Act) (kernel stride padding dilation : Nat × Nat) (dropout : Option α) (ks : List (Tensor α))
  | deconv (filters : Nat) (act : Act) (kernel stride padding : Nat × Nat) (dropout : Option α) (ks : List (Tensor α))
  | maxpool (kernel stride : Nat × Nat)

/-- `Network::feedback`: build the inner layers chaining shapes, then `Feedback::create` -/
def addFeedback (n : Network α) (specs : List (InnerSpec α)) (loops : Nat) (inskips outskips : Bool)
    (acc : Accumulation) : Except Err (Network α) :=
  if specs.isEmpty then .error .reject else
  let built := specs.foldl (fun (st : Except Err (Shape × List (InnerLayer α))) sp =>
    match st with
    | .error e => .error e
    | .ok (inp, ls) =>
      let l : Except Err (InnerLayer α) :=
        match sp with
        | .dense o a b d w bt =>
          match inp with
          | .single _ => .ok (.dense { inputs := inp, outputs := .single o, loops := 1, scale := fun x => 1 / x,
                                       weights := w, bias := if b then bt else none, act := a, dropout := d, training := false })
          | _ => .error .reject
        | .conv f a k s p dl d ks => match mkConv inp f a k s p dl d ks with | .ok c => .ok (.conv c) | .error e => .error e
        | .deconv f a k s p d ks => match mkDeconv inp f a k s p d ks with | .ok c => .ok (.deconv c) | .error e => .error e
        | .maxpool k s => match mkMaxpool (α := α) inp k s with | .ok c => .ok (.maxpool c) | .error e => .error e
      match l with
      | .error e => .error e
      | .ok l => .ok (l.outputs, ls ++ [l])) (.ok (n.lastOutputs, []))
  match built with
  | .error e => .error e
  | .ok (_, ls) =>
    match Feedback.create ls loops inskips outskips acc with
    | .error e => .error e
    | .ok f => .ok { n with layers := n.layers ++ [.feedback f] }

/-- number of elements a layer's input holds, as `Network::connect` computes it -/
def inputCount (l : Layer α) (asSource : Bool) : Except Err Nat :=
  match l with
  | .dense d => match d.inputs with | .single k => .ok k | _ => .error .reject
  | .conv d => match d.inputs with | .triple c h w => .ok (c * h * w) | _ => .error .reject
  | .deconv d => match d.inputs with | .triple c h w => .ok (c * h * w) | _ => .error .reject
  | .maxpool d =>
    if asSource then .error .reject      -- `Layer::Maxpool(_) => panic!("Unknown shape!")` on the source side
    else match d.inputs with | .single k => .ok k | .triple c h w => .ok (c * h * w) | _ => .error .reject
  | .feedback d => match d.inputs with | .single k => .ok k | .triple c h w => .ok (c * h * w) | _ => .error .reject

/-- `Network::connect(infrom, into)` (after the repair of D8: the duplicate test looks up `into`, the
    key of the map).  `infrom = into` is accepted: the layer then processes its input combined with itself. -/
def addConnect (n : Network α) (infrom into : Nat) : Except Err (Network α) :=
  if infrom > n.layers.length ∨ into ≥ n.layers.length ∨ infrom > into then .error .reject
  else if (Assoc.find? n.connect into).isSome then .error .reject
  else
    match L.get n.layers infrom, L.get n.layers into with
    | .error e, _ => .error e
    | _, .error e => .error e
    | .ok lf, .ok lt =>
      match inputCount lf true, inputCount lt false with
      | .error e, _ => .error e
      | _, .error e => .error e
      | .ok a, .ok b => if a ≠ b then .error .shape else .ok { n with connect := Assoc.insert n.connect into infrom }

/-- `Network::loopback(outof, into, iterations, scale, inskips)` -/
def addLoopback (n : Network α) (outof into iterations : Nat) (scale : α → α) (inskips : Bool) : Except Err (Network α) :=
  if outof > n.layers.length ∨ into ≥ n.layers.length ∨ outof < into then .error .reject
  else if (Assoc.find? n.loopbacks outof).isSome then .error .reject
  else
    match L.get n.layers into, L.get n.layers outof with
    | .error e, _ => .error e
    | _, .error e => .error e
    | .ok li, .ok lo =>
      if li.inputs ≠ lo.outputs then .error .shape else
      let it : α := ofNat' iterations
      let bump (l : Layer α) : Except Err (Layer α) :=
        match l with
        | .dense d => .ok (.dense { d with scale := scale, loops := d.loops + it })
        | .conv d => .ok (.conv { d with scale := scale, loops := d.loops + it })
        | .deconv d => .ok (.deconv { d with scale := scale, loops := d.loops + it })
        | .maxpool d => .ok (.maxpool { d with loops := d.loops + it })
        | .feedback _ => .error .reject
      match L.mapM' (fun il : Nat × Layer α => if into ≤ il.1 ∧ il.1 ≤ outof then bump il.2 else .ok il.2)
          (List.zip (List.range n.layers.length) n.layers) with
      | .error e => .error e
      | .ok ls => .ok { n with layers := ls, loopbacks := Assoc.insert n.loopbacks outof (into, iterations, inskips) }

def parameters (n : Network α) : Except Err Nat :=
  n.layers.foldl (fun acc l =>
    match acc, l.parameters with
    | .ok a, .ok b => .ok (a + b)
    | .error e, _ => .error e
    | _, .error e => .error e) (.ok 0)

/-! ### forward -/

/-- what the forward pass records: per layer its pre-activation, the activations (`activated[0]` is
    the network input), and the per-layer extra recordings -/
structure Trace (α : Type) where
  pre : List (Tensor α)
  act : List (Tensor α)
  recs : List (Recorded α)

/-- forward of one layer of any kind → `(pre, post, recording)` -/
def layerForward (l : Layer α) (x : Tensor α) : Except Err (Tensor α × Tensor α × Recorded α) :=
  match l with
  | .dense d => match d.forward x with | .ok (a, b) => .ok (a, b, .none) | .error e => .error e
  | .conv d => match d.forward x with | .ok (a, b) => .ok (a, b, .none) | .error e => .error e
  | .deconv d => match d.forward x with | .ok (a, b) => .ok (a, b, .none) | .error e => .error e
  | .maxpool d => match d.forward x with | .ok (a, b, m) => .ok (a, b, .max m) | .error e => .error e
  | .feedback f => match f.forward x with
    | .ok (a, b, un, act, mx) => .ok (a, b, .block un act mx)
    | .error e => .error e

/-- one layer of `_forward`: feed it the previous output, record what it produced -/
def rangeStep (st : Except Err (List (Tensor α) × List (Tensor α) × List (Recorded α) × Tensor α)) (l : Layer α) :
    Except Err (List (Tensor α) × List (Tensor α) × List (Recorded α) × Tensor α) :=
  match st with
  | .error e => .error e
  | .ok (pres, posts, recs, x) =>
    match layerForward l x with
    | .error e => .error e
    | .ok (pre, post, r) => .ok (pres ++ [pre], posts ++ [post], recs ++ [r], post)

/-- `_forward(input, from, to)`: run layers `from .. to` in sequence -/
def runRange (layers : List (Layer α)) (input : Tensor α) :
    Except Err (List (Tensor α) × List (Tensor α) × List (Recorded α)) :=
  match layers.foldl rangeStep (.ok ([], [], [], input)) with
  | .error e => .error e
  | .ok (a, b, c, _) => .ok (a, b, c)

/-- merge the max-pool indices of a loop iteration into the recorded ones (`Tensor::extend`) -/
def extendMax (a b : MaxIdx) : MaxIdx :=
  List.zipWith (List.zipWith (List.zipWith (· ++ ·))) a b

def extendRec (acc : Accumulation) (r : Recorded α) (f : Recorded α) : Except Err (Recorded α) :=
  match r, f with
  | .max m, .max fm => .ok (.max (if acc = .overwrite then fm else extendMax m fm))
  | .max _, _ => .error .reject      -- "Maxpool indices are missing."
  | r, _ => .ok r

/-- one run of the looped range on the previous output `cur`: bring it to the first layer's input
    shape, add the range's original input when `inskips`, run the range; returns the range's
    pre-activations, activations, recordings and its last activation -/
def loopStep (range : List (Layer α)) (linInputs : Shape) (inskips : Bool) (actInto : Tensor α) (cur : Tensor α) :
    Except Err (List (Tensor α) × List (Tensor α) × List (Recorded α) × Tensor α) :=
  let cur1 : Except Err (Tensor α) :=
    if cur.shape ≠ linInputs then Tensor.reshape cur linInputs else .ok cur
  match cur1 with
  | .error e => .error e
  | .ok cur1 =>
    let cur2 : Except Err (Tensor α) := if inskips then cur1.add actInto else .ok cur1
    match cur2 with
    | .error e => .error e
    | .ok cur2 =>
      match runRange range cur2 with
      | .error e => .error e
      | .ok (p, q, r) =>
        match q.getLast? with
        | some out => .ok (p, q, r, out)
        | none => .error .index

/-- `k` successive runs, each on the output of the previous one; the per-run recordings in order,
    and the output of the last run -/
def loopRuns {P Q R : Type} (step : Tensor α → Except Err (P × Q × R × Tensor α)) :
    Nat → Tensor α → Except Err (List P × List Q × List R × Tensor α)
  | 0, cur => .ok ([], [], [], cur)
  | k + 1, cur =>
    match step cur with
    | .error e => .error e
    | .ok (p, q, r, out) =>
      match loopRuns step k out with
      | .error e => .error e
      | .ok (ps, qs, rs, fin) => .ok (p :: ps, q :: qs, r :: rs, fin)

/-- how the recorded value `x` of a looped layer is combined with the values `ys` of the runs -/
def loopCombine (acc : Accumulation) (x : Tensor α) (ys : List (Tensor α)) : Except Err (Tensor α) :=
  match acc with
  | .overwrite => match ys.getLast? with
    | some y => .ok y
    | none => .ok x          -- zero iterations: nothing is overwritten
  | .mean => x.mean ys
  | a => accumulateMany a x ys

/-- merge the runs into the trace at range offset `idx` (layer `j`) -/
def loopMerge (n : Network α) (fpres fposts : List (List (Tensor α))) (frecs : List (List (Recorded α)))
    (st : Except Err (Trace α)) (ij : Nat × Nat) : Except Err (Trace α) :=
  match st with
  | .error e => .error e
  | .ok (t : Trace α) =>
    let idx := ij.1
    let j := ij.2
    match L.mapM' (fun (x : List (Tensor α)) => L.get x idx) fpres,
          L.mapM' (fun (x : List (Tensor α)) => L.get x idx) fposts,
          L.mapM' (fun (x : List (Recorded α)) => L.get x idx) frecs,
          L.get t.pre j, L.get t.act (j + 1), L.get t.recs j with
    | .ok ps, .ok qs, .ok rs, .ok pj, .ok aj, .ok rj =>
      match loopCombine n.loopaccumulation pj ps, loopCombine n.loopaccumulation aj qs,
            rs.foldl (fun (r : Except Err (Recorded α)) f => match r with
              | .ok r => extendRec n.loopaccumulation r f
              | .error e => .error e) (.ok rj) with
      | .ok pj', .ok aj', .ok rj' =>
        .ok { pre := L.modAt (fun _ => pj') t.pre j, act := L.modAt (fun _ => aj') t.act (j + 1),
              recs := L.modAt (fun _ => rj') t.recs j }
      | .error e, _, _ => .error e
      | _, .error e, _ => .error e
      | _, _, .error e => .error e
    | _, _, _, _, _, _ => .error .index

/-- the loop-connection block of `Network::forward` after layer `i` -/
def applyLoopback (n : Network α) (i : Nat) (into iterations : Nat) (inskips : Bool) (t : Trace α) : Except Err (Trace α) :=
  match t.act.getLast?, L.get n.layers into, L.get n.layers i, L.get t.act into with
  | some last, .ok lin, .ok _, .ok actInto =>
    let range := (n.layers.drop into).take (i + 1 - into)
    -- run the sub-network `iterations` times, each time on the previous output
    match loopRuns (loopStep range lin.inputs inskips actInto) iterations last with
    | .error e => .error e
    | .ok (fpres, fposts, frecs, _) =>
      -- combine per layer of the range
      (List.zip (List.range (i + 1 - into)) (List.range (i + 1 - into) |>.map (· + into))).foldl
        (loopMerge n fpres fposts frecs) (.ok t)
  | _, _, _, _ => .error .index

/-- the input layer `i` actually processes: the previous layer's output (`act[i]`) combined with the
    source of its skip connection, if any (`Network::skip_input`) -/
def skipInput (n : Network α) (act : List (Tensor α)) (i : Nat) : Except Err (Tensor α) :=
  match L.get act i with
  | .error e => .error e
  | .ok x0 =>
    match Assoc.find? n.connect i with
    | none => .ok x0
    | some src =>
      match L.get act src with
      | .error e => .error e
      | .ok s =>
        let s' : Except Err (Tensor α) := if s.shape ≠ x0.shape then s.reshape x0.shape else .ok s
        match s' with
        | .error e => .error e
        | .ok s' => accumulate1 n.skipaccumulation x0 s'

/-- one layer of `Network::forward`: its (skip-combined) input, its output, then the loop connection
    leaving it, if any -/
def forwardLayer (n : Network α) (st : Except Err (Trace α)) (il : Nat × Layer α) : Except Err (Trace α) :=
  match st with
  | .error e => .error e
  | .ok (t : Trace α) =>
    let i := il.1
    match skipInput n t.act i with
    | .error e => .error e
    | .ok x =>
      match layerForward il.2 x with
      | .error e => .error e
      | .ok (pre, post, r) =>
        let t' : Trace α := { pre := t.pre ++ [pre], act := t.act ++ [post], recs := t.recs ++ [r] }
        match Assoc.find? n.loopbacks i with
        | none => .ok t'
        | some (into, iterations, inskips) => applyLoopback n i into iterations inskips t'

/-- `Network::forward` -/
def forward (n : Network α) (input : Tensor α) : Except Err (Trace α) :=
  (List.zip (List.range n.layers.length) n.layers).foldl (forwardLayer n)
    (.ok { pre := [], act := [input], recs := [] })

/-- `Network::predict`: the last activation -/
def predict (n : Network α) (input : Tensor α) : Except Err (Tensor α) :=
  match forward n input with
  | .error e => .error e
  | .ok t => match t.act.getLast? with
    | some y => .ok y
    | none => .error .index

/-! ### backward -/

/-- the weight gradient recorded for a layer: a tensor, or the list of a feedback block's -/
inductive WGrad (α : Type)
  | one (t : Tensor α)
  | block (ts : List (Tensor α))

inductive BGrad (α : Type)
  | one (t : Option (Tensor α))
  | block (ts : List (Option (Tensor α)))

/-- insert into a sorted list -/
def insertSorted (x : Nat) : List Nat → List Nat
  | [] => [x]
  | y :: ys => if x ≤ y then x :: y :: ys else y :: insertSorted x ys

/-- `{to: from}` inverted to `{from: [to, …]}` with the targets of every source sorted ascending
    (after the repair of D12 the result no longer depends on `HashMap` iteration order) -/
def invertStep (m : List (Nat × List Nat)) (e : Nat × Nat) : List (Nat × List Nat) :=
  match Assoc.find? m e.2 with
  | some ts => Assoc.insert m e.2 (insertSorted e.1 ts)
  | none => Assoc.insert m e.2 [e.1]

def invertSkips (c : List (Nat × Nat)) : List (Nat × List Nat) :=
  c.foldl invertStep []

/-- backward of one layer of any kind → `(input gradient, weight gradient, bias gradient)`;
    `recd` is the layer's extra recording (max-pool indices / a block's inner trace) -/
def layerBackward (l : Layer α) (g input output : Tensor α) (recd : Except Err (Recorded α)) :
    Except Err (Tensor α × WGrad α × BGrad α) :=
  match l with
  | .dense l => match l.backward g input output with
    | .ok (a, b, c) => .ok (a, .one b, .one c) | .error e => .error e
  | .conv l => match l.backward g input output with
    | .ok (a, b, c) => .ok (a, .one b, .one c) | .error e => .error e
  | .deconv l => match l.backward g input output with
    | .ok (a, b, c) => .ok (a, .one b, .one c) | .error e => .error e
  | .maxpool l =>
    match recd with
    | .ok (.max m) => match l.backward g m with
      | .ok a => .ok (a, .one (Tensor.single []), .one none) | .error e => .error e
    | _ => .error .reject
  | .feedback f =>
    match recd with
    | .ok (.block un act _) => match f.backward g un act with
      | .ok (a, b, c) => .ok (a, .block b, .block c) | .error e => .error e
    | _ => .error .index

/-- add to the gradient `cur` handed on by layer `idx` the contribution of the skip connection
    `idx → target`: the gradient with respect to the input the target processed (`ig` itself for a
    connection from a layer to itself), reshaped to the source's shape -/
def addSkipGradient (len idx : Nat) (ig : Tensor α) (processed : List (Tensor α))
    (acc : Except Err (Tensor α)) (target : Nat) : Except Err (Tensor α) :=
  match acc with
  | .error e => .error e
  | .ok cur =>
    let g2 : Except Err (Tensor α) :=
      if target = idx then .ok ig else
      match checkedSub len target with
      | .error e => .error e
      | .ok k => L.get processed k
    match g2 with
    | .error e => .error e
    | .ok g2 =>
      match g2.reshape cur.shape with
      | .error e => .error e
      | .ok g2' => cur.add g2'

/-- the state of the reverse walk: weight gradients, bias gradients, the gradients handed on
    (the objective gradient first), and the processed-input gradients aligned with them -/
abbrev BackState (α : Type) := List (WGrad α) × List (BGrad α) × List (Tensor α) × List (Tensor α)

/-- one layer of the reverse walk -/
def backwardStep (n : Network α) (t : Trace α) (inv : List (Nat × List Nat))
    (st : Except Err (BackState α)) (il : Nat × Layer α) : Except Err (BackState α) :=
  match st with
  | .error e => .error e
  | .ok (wgs, bgs, grads, processed) =>
    let idx := il.1
    match skipInput n t.act idx, L.get t.pre idx, grads.getLast? with
    | .ok input, .ok output, some g =>
      match layerBackward il.2 g input output (L.get t.recs idx) with
      | .error e => .error e
      | .ok (ig, wg, bg) =>
        let ig' : Except Err (Tensor α) :=
          match Assoc.find? inv idx with
          | none => .ok ig
          | some targets => targets.foldl (addSkipGradient n.layers.length idx ig processed) (.ok ig)
        match ig' with
        | .error e => .error e
        | .ok ig' => .ok (wgs ++ [wg], bgs ++ [bg], grads ++ [ig'], processed ++ [ig])
    | _, _, _ => .error .index

/-- `Network::backward` → per layer (last first) weight and bias gradients, plus the chain of
    gradients handed to the preceding layer (`gradients` in Rust: the objective gradient first).
    `processed` keeps, aligned with it, the gradients with respect to the input each layer actually
    processed; a skip connection contributes the *target's* processed-input gradient to its source
    (repair of the chained-skip defect: the handed-on gradient already contains other skips). -/
def backward (n : Network α) (gradient : Tensor α) (t : Trace α) :
    Except Err (List (WGrad α) × List (BGrad α) × List (Tensor α)) :=
  match (List.zip (List.range n.layers.length) n.layers).reverse.foldl
      (backwardStep n t (invertSkips n.connect)) (.ok ([], [], [gradient], [gradient])) with
  | .error e => .error e
  | .ok (w, b, g, _) => .ok (w, b, g)

/-- forward, objective, backward for one sample: what the closure in `learn` computes -/
def sampleGradients (n : Network α) (input target : Tensor α) :
    Except Err (List (WGrad α) × List (BGrad α) × α × List (Tensor α)) :=
  match forward n input with
  | .error e => .error e
  | .ok t =>
    match t.act.getLast? with
    | none => .error .index
    | some out =>
      match n.objective.loss n.clamp out target with
      | .error e => .error e
      | .ok (loss, g) =>
        match backward n g t with
        | .error e => .error e
        | .ok (w, b, gs) => .ok (w, b, loss, gs)

end Network
