import Model.Network

/-!
# Training, validation, prediction (`Network::set_optimizer`, `update`, `learn`, `validate`,
`predict_batch`; `Feedback::copy_optimizer`, `Feedback::update`)

rayon: every parallel construct the code uses is an *indexed* `collect` (`par_chunks`, `into_par_iter`
+ `map` + `collect`, `flat_map` + `collect`), whose contract is that result `i` is written to position
`i`.  The model is the sequential semantics under exactly this contract; the schedule-independence
theorem (`Props/C05.lean`) makes the dependence on the contract explicit.
-/

variable {α : Type} [Scalar α]
open Scalar

/-- zero state tensors for one layer, `[filter][bias]` -/
def stateVectors (l : Layer α) : List (List (Tensor α)) :=
  match l with
  | .dense d =>
    match d.weights.shape with
    | .double o i =>
      [[⟨.double o i, .double (L.replicate2 o i 0)⟩,
        if d.bias.isSome then Tensor.single (List.replicate o 0) else Tensor.single []]]
    | _ => [[]]
  | .conv d =>
    match d.kernels with
    | k :: _ => List.replicate d.kernels.length [Tensor.mapData (fun _ => 0) k]
    | [] => []
  | .deconv d =>
    match d.kernels with
    | k :: _ => List.replicate d.kernels.length [Tensor.mapData (fun _ => 0) k]
    | [] => []
  | .maxpool _ => [[Tensor.single []]]
  | .feedback _ => [[Tensor.single []]]

namespace Feedback

/-- `Feedback::copy_optimizer`: a private copy of the optimizer with state for the unrolled layers,
    last layer first -/
def copyOptimizer (f : Feedback α) (k : OptKind α) : Feedback α :=
  { f with optimizer := Optimizer.validated k (f.layers.reverse.map (fun l => stateVectors (Layer.ofInner l))) }

/-- optimizer steps for one inner layer (position `i` counted from the end) -/
def updateInner (o : Optimizer α) (i : Nat) (stepnr : Nat) (l : InnerLayer α) (wg : Tensor α) (bg : Option (Tensor α)) :
    Except Err (Optimizer α × InnerLayer α) :=
  match l with
  | .dense d =>
    match o.update i 0 false stepnr d.weights wg with
    | .error e => .error e
    | .ok (o1, w, _) =>
      match d.bias with
      | none => .ok (o1, .dense { d with weights := w })
      | some b =>
        match bg with
        | none => .error .index             -- `.as_mut().unwrap()` on a missing bias gradient
        | some bgt =>
          match o1.update i 0 true stepnr b bgt with
          | .error e => .error e
          | .ok (o2, b', _) => .ok (o2, .dense { d with weights := w, bias := some b' })
  | .conv d =>
    match wg.data with
    | .quadruple gs =>
      -- `kernels.iter_mut().zip(quadruple_to_vec_triple())`: pairs up to the shorter length
      let r := (List.zip (List.range d.kernels.length) (List.zip d.kernels gs)).foldl
        (fun (st : Except Err (Optimizer α × List (Tensor α))) fkg =>
          match st with
          | .error e => .error e
          | .ok (o, ks) =>
            match Tensor.triple fkg.2.2 with
            | .error e => .error e
            | .ok g =>
              match o.update i fkg.1 false stepnr fkg.2.1 g with
              | .error e => .error e
              | .ok (o', k', _) => .ok (o', ks ++ [k'])) (.ok (o, []))
      match r with
      | .error e => .error e
      | .ok (o', ks) => .ok (o', .conv { d with kernels := ks ++ d.kernels.drop ks.length })
    | _ => .error .reject
  | .deconv d =>
    match wg.data with
    | .quadruple gs =>
      let r := (List.zip (List.range d.kernels.length) (List.zip d.kernels gs)).foldl
        (fun (st : Except Err (Optimizer α × List (Tensor α))) fkg =>
          match st with
          | .error e => .error e
          | .ok (o, ks) =>
            match Tensor.triple fkg.2.2 with
            | .error e => .error e
            | .ok g =>
              match o.update i fkg.1 false stepnr fkg.2.1 g with
              | .error e => .error e
              | .ok (o', k', _) => .ok (o', ks ++ [k'])) (.ok (o, []))
      match r with
      | .error e => .error e
      | .ok (o', ks) => .ok (o', .deconv { d with kernels := ks ++ d.kernels.drop ks.length })
    | _ => .error .reject
  | .maxpool d => .ok (o, .maxpool d)

/-- the parameters of an inner layer as a list of tensors (weights/kernels) and its bias -/
def paramsOf : InnerLayer α → Option (List (Tensor α) × Option (Tensor α))
  | .dense d => some ([d.weights], d.bias)
  | .conv d => some (d.kernels, none)
  | .deconv d => some (d.kernels, none)
  | .maxpool _ => none

def setParams (l : InnerLayer α) (ws : List (Tensor α)) (b : Option (Tensor α)) : InnerLayer α :=
  match l with
  | .dense d => .dense { d with weights := ws.headD d.weights, bias := match d.bias with | some _ => b | none => none }
  | .conv d => .conv { d with kernels := ws }
  | .deconv d => .deconv { d with kernels := ws }
  | .maxpool d => .maxpool d

/-- combine the copies of one coupled group: first ⊕ second ⊕ …, `mean` divides the sum by the count -/
def couple (acc : Accumulation) (copies : List (List (Tensor α))) : Except Err (List (Tensor α)) :=
  match copies with
  | [] => .error .index                       -- `weights.remove(0)` on an empty vector
  | first :: rest =>
    let op (a b : Tensor α) : Except Err (Tensor α) :=
      match acc with
      | .add | .mean => a.add b
      | .multiply => a.mul b
      | .subtract => a.sub b
      | .overwrite => .error .unimplemented
    if acc = .overwrite then .error .unimplemented else
    let summed := rest.foldl (fun (st : Except Err (List (Tensor α))) c =>
      match st with
      | .error e => .error e
      | .ok cur =>
        if cur.length ≠ c.length then .error .shape else
        L.mapM' (fun p => op p.1 p.2) (cur.zip c)) (.ok first)
    match summed, acc with
    | .error e, _ => .error e
    | .ok s, .mean => .ok (s.map (fun t => t.divScalar (ofNat' copies.length)))
    | .ok s, _ => .ok s

/-- write the accumulated parameters back to every copy of a group -/
def writeGroup (ls : List (InnerLayer α)) (group : List Nat) (ws : List (Tensor α)) (b : Option (Tensor α)) :
    List (InnerLayer α) :=
  group.foldl (fun ls i => L.modAt (fun l => setParams l ws b) ls i) ls

/-- the accumulated parameters of one coupled group: weights/kernels and (if any copy has one) the bias -/
def groupParams (acc : Accumulation) (ls : List (InnerLayer α)) (group : List Nat) :
    Except Err (Option (List (Tensor α) × Option (Tensor α))) :=
  let members := group.filterMap (fun i => (L.get? ls i).bind paramsOf)
  match members with
  | [] => if group.all (fun i => ((L.get? ls i).bind paramsOf).isNone) ∧ group.all (fun i => (L.get? ls i).isSome)
          then .ok none else .error .index
  | _ =>
    match couple acc (members.map (·.1)) with
    | .error e => .error e
    | .ok ws =>
      let biases := members.filterMap (·.2)
      let b : Except Err (Option (Tensor α)) :=
        match biases with
        | [] => .ok none
        | _ => match couple acc (biases.map (fun t => [t])) with
          | .ok [t] => .ok (some t)
          | .ok _ => .error .index
          | .error e => .error e
      match b with
      | .error e => .error e
      | .ok b => if group.any (fun i => (L.get? ls i).isNone) then .error .index else .ok (some (ws, b))

/-- re-couple one group: accumulate the copies, write the same value back to each of them -/
def recoupleGroup (acc : Accumulation) (ls : List (InnerLayer α)) (group : List Nat) : Except Err (List (InnerLayer α)) :=
  match groupParams acc ls group with
  | .error e => .error e
  | .ok none => .ok ls
  | .ok (some (ws, b)) => .ok (writeGroup ls group ws b)

/-- re-couple every group, in order -/
def recouple (acc : Accumulation) : List (List Nat) → List (InnerLayer α) → Except Err (List (InnerLayer α))
  | [], ls => .ok ls
  | g :: gs, ls =>
    match recoupleGroup acc ls g with
    | .error e => .error e
    | .ok ls' => recouple acc gs ls'

/-- `Feedback::update`: one optimizer step per unrolled copy, then re-coupling (accumulate and write
    the same value back to every copy of a group) -/
def update (f : Feedback α) (stepnr : Nat) (wgs : List (Tensor α)) (bgs : List (Option (Tensor α))) :
    Except Err (Feedback α) :=
  let n := f.layers.length
  -- layers in reverse, gradient `i` belongs to the `i`-th layer from the end
  let stepped := (List.zip (List.range n) f.layers.reverse).foldl
    (fun (st : Except Err (Optimizer α × List (InnerLayer α))) il =>
      match st with
      | .error e => .error e
      | .ok (o, ls) =>
        match il.2 with
        | .maxpool d => .ok (o, ls ++ [.maxpool d])
        | l =>
          match L.get wgs il.1, L.get bgs il.1 with
          | .ok wg, .ok bg =>
            match updateInner o il.1 stepnr l wg bg with
            | .error e => .error e
            | .ok (o', l') => .ok (o', ls ++ [l'])
          | .error e, _ => .error e
          | _, .error e => .error e) (.ok (f.optimizer, []))
  match stepped with
  | .error e => .error e
  | .ok (o', revLayers) =>
    match recouple f.accumulation f.coupled revLayers.reverse with
    | .error e => .error e
    | .ok ls => .ok { f with layers := ls, optimizer := o' }

end Feedback

namespace Network

/-- `Network::set_optimizer`: state tables sized from the layers (last layer first); feedback blocks
    get their own validated copy -/
def setOptimizer (n : Network α) (k : OptKind α) : Network α :=
  let vectors := n.layers.reverse.map stateVectors
  { n with optimizer := Optimizer.validated k vectors,
           layers := n.layers.map (fun l => match l with
             | .feedback f => .feedback (f.copyOptimizer k)
             | l => l) }

/-- `Network::update(stepnr, weight_gradients, bias_gradients)`; gradient `i` belongs to the `i`-th
    layer from the end -/
def update (n : Network α) (stepnr : Nat) (wgs : List (WGrad α)) (bgs : List (BGrad α)) : Except Err (Network α) :=
  let len := n.layers.length
  let stepped := (List.zip (List.range len) n.layers.reverse).foldl
    (fun (st : Except Err (Optimizer α × List (Layer α))) il =>
      match st with
      | .error e => .error e
      | .ok (o, ls) =>
        match il.2 with
        | .maxpool d => .ok (o, ls ++ [.maxpool d])
        | .feedback f =>
          match L.get wgs il.1, L.get bgs il.1 with
          | .ok (.block w), .ok (.block b) =>
            match f.update stepnr w b with
            | .ok f' => .ok (o, ls ++ [.feedback f'])
            | .error e => .error e
          | _, _ => .error .index
        | .dense d =>
          match L.get wgs il.1, L.get bgs il.1 with
          | .ok (.one w), .ok (.one b) =>
            match Feedback.updateInner o il.1 stepnr (.dense d) w b with
            | .ok (o', .dense d') => .ok (o', ls ++ [.dense d'])
            | .ok _ => .error .index
            | .error e => .error e
          | _, _ => .error .index
        | .conv d =>
          match L.get wgs il.1 with
          | .ok (.one w) =>
            match Feedback.updateInner o il.1 stepnr (.conv d) w none with
            | .ok (o', .conv d') => .ok (o', ls ++ [.conv d'])
            | .ok _ => .error .index
            | .error e => .error e
          | _ => .error .index
        | .deconv d =>
          match L.get wgs il.1 with
          | .ok (.one w) =>
            match Feedback.updateInner o il.1 stepnr (.deconv d) w none with
            | .ok (o', .deconv d') => .ok (o', ls ++ [.deconv d'])
            | .ok _ => .error .index
            | .error e => .error e
          | _ => .error .index) (.ok (n.optimizer, []))
  match stepped with
  | .error e => .error e
  | .ok (o', rev) => .ok { n with optimizer := o', layers := rev.reverse }

/-! ### gradient accumulation over a batch -/

def addW : WGrad α → WGrad α → Except Err (WGrad α)
  | .one a, .one b => match a.add b with | .ok c => .ok (.one c) | .error e => .error e
  | .block a, .block b => match Tensor.addNested a b with | .ok c => .ok (.block c) | .error e => .error e
  | _, _ => .error .reject

def addB : BGrad α → BGrad α → Except Err (BGrad α)
  | .one (some a), .one (some b) => match a.add b with | .ok c => .ok (.one (some c)) | .error e => .error e
  | .one none, .one none => .ok (.one none)
  | .one _, .one _ => .error .reject          -- "Expected Some, got None." / "Expected None, got Some."
  | .block a, .block b => match Tensor.addNestedOpt a b with | .ok c => .ok (.block c) | .error e => .error e
  | _, _ => .error .reject

/-- in-order accumulation of the per-sample results of one batch: the first sample's gradients, then
    `add_inplace` of every later sample's, a NaN loss aborts -/
def accumulateBatch (results : List (List (WGrad α) × List (BGrad α) × α)) :
    Except Err (List (WGrad α) × List (BGrad α) × List α) :=
  results.foldl (fun (st : Except Err (List (WGrad α) × List (BGrad α) × List α)) r =>
    match st with
    | .error e => .error e
    | .ok (ws, bs, ls) =>
      if isNaN r.2.2 then .error .nan else
      if ws.isEmpty then .ok (r.1, r.2.1, ls ++ [r.2.2]) else
      -- zips truncate to the shorter list
      match L.mapM' (fun p => addW p.1 p.2) (ws.zip r.1), L.mapM' (fun p => addB p.1 p.2) (bs.zip r.2.1) with
      | .ok ws', .ok bs' => .ok (ws' ++ ws.drop ws'.length, bs' ++ bs.drop bs'.length, ls ++ [r.2.2])
      | .error e, _ => .error e
      | _, .error e => .error e) (.ok ([], [], []))

/-- one batch: per-sample gradients at the current weights (in sample order), summed, one update -/
def trainBatch (n : Network α) (epoch : Nat) (batch : List (Tensor α × Tensor α)) : Except Err (Network α × α) :=
  match L.mapM' (fun s => match n.sampleGradients s.1 s.2 with
      | .ok (w, b, l, _) => .ok (w, b, l)
      | .error e => .error e) batch with
  | .error e => .error e
  | .ok results =>
    match accumulateBatch results with
    | .error e => .error e
    | .ok (ws, bs, losses) =>
      let mean := Tensor.sumL losses / ofNat' losses.length
      match n.update epoch ws bs with
      | .error e => .error e
      | .ok n' => .ok (n', mean)

/-! ### validation and prediction -/

/-- dropout flags of the whole network, in layer order -/
def flags (n : Network α) : List Bool := n.layers.flatMap Layer.flags

def setAllTraining (n : Network α) (t : Bool) : Network α := { n with layers := n.layers.map (Layer.setTraining t) }

/-- accuracy of one sample -/
def score (n : Network α) (prediction target : Tensor α) (tol : α) : Except Err α :=
  match n.layers.getLast? with
  | some (.dense d) =>
    match d.act with
    | .softmax =>
      match target.argmax, prediction.argmax with
      | .ok a, .ok b => .ok (if a = b then 1 else 0)
      | .error e, _ => .error e
      | _, .error e => .error e
    | _ =>
      match target.getFlat, prediction.getFlat with
      | .ok t, .ok p =>
        if t.length = 1 then
          match t, p with
          | [t0], p0 :: _ => .ok (if lt (abs (p0 - t0)) tol then 1 else 0)
          | _, _ => .error .index
        else
          .ok (Tensor.sumL (List.zipWith (fun t p => if lt (abs (t - p)) tol then (1 : α) else 0) t p) / ofNat' t.length)
      | .error e, _ => .error e
      | _, .error e => .error e
  | some _ => .error .unimplemented
  | none => .error .index

/-- `Network::validate` (after the repair of D7): every dropout flag is cleared for the duration of
    the call and restored afterwards if any was set; returns the network (flags restored), mean loss
    and mean accuracy -/
def validate (n : Network α) (inputs targets : List (Tensor α)) (tol : α) : Except Err (Network α × α × α) :=
  let was := n.flags.any id
  let quiet := n.setAllTraining false
  match L.mapM' (fun it : Tensor α × Tensor α =>
      match quiet.predict it.1 with
      | .error e => .error e
      | .ok p =>
        match quiet.objective.loss quiet.clamp p it.2, quiet.score p it.2 tol with
        | .ok (l, _), .ok a => .ok (l, a)
        | .error e, _ => .error e
        | _, .error e => .error e) (inputs.zip targets) with
  | .error e => .error e
  | .ok results =>
    let k : α := ofNat' results.length
    let restored := if was then quiet.setAllTraining true else quiet
    .ok (restored, Tensor.sumL (results.map (·.1)) / k, Tensor.sumL (results.map (·.2)) / k)

/-- `Network::predict_batch`: chunks of 64 mapped in order and concatenated -/
def predictBatch (n : Network α) (inputs : List (Tensor α)) : Except Err (List (Tensor α)) :=
  match L.mapM' (fun chunk => L.mapM' n.predict chunk) (L.chunks 64 inputs) with
  | .ok cs => .ok cs.flatten
  | .error e => .error e

/-! ### early stopping and `learn` -/

/-- newest-first window: `history[i] > history[i+1]` for all consecutive pairs (a NaN comparison
    `<=` is false in Rust, so NaN pairs count as "increasing") -/
def increasingNewestFirst : List α → Bool
  | [] => true
  | [_] => true
  | a :: b :: rest => !(le a b) && increasingNewestFirst (b :: rest)

/-- the early-stopping test after epoch `e`: `threshold - 1` underflows for a zero threshold -/
def shouldStop (threshold e : Nat) (valLoss : List α) : Except Err Bool :=
  if e > threshold then
    if threshold = 0 then .error .arith else
    .ok (increasingNewestFirst (valLoss.reverse.take threshold))
  else .ok false

structure LearnResult (α : Type) where
  net : Network α
  trainLoss : List α
  valLoss : List α
  valAcc : List α

/-- the control skeleton of `learn`: run `step` for epoch `e`, then ask `stop`; at most `fuel` epochs -/
def epochLoop {S : Type} (step : Nat → S → Except Err S) (stop : Nat → S → Except Err Bool) :
    Nat → Nat → S → Except Err S
  | 0, _, s => .ok s
  | fuel+1, e, s =>
    match step e s with
    | .error x => .error x
    | .ok s' =>
      match stop e s' with
      | .error x => .error x
      | .ok true => .ok s'
      | .ok false => epochLoop step stop fuel (e + 1) s'

/-- one epoch: every batch in order (one update each), the epoch's training loss, then — when
    validation data is given — one validation entry.  `script` optionally replaces the measured
    validation loss of epoch `e` (the `verif` hook). -/
def epochStep (inputs targets : List (Tensor α)) (validation : Option (List (Tensor α) × List (Tensor α) × Nat))
    (batch : Nat) (script : List α) (epoch : Nat) (r : LearnResult α) : Except Err (LearnResult α) :=
  let batches := List.zip (L.chunks batch inputs) (L.chunks batch targets)
  let run := batches.foldl (fun (st : Except Err (Network α × α)) b =>
    match st with
    | .error e => .error e
    | .ok (n, lossEpoch) =>
      match n.trainBatch epoch (b.1.zip b.2) with
      | .error e => .error e
      | .ok (n', m) => .ok (n', lossEpoch + m)) (.ok (r.net, 0))
  match run with
  | .error e => .error e
  | .ok (n, lossEpoch) =>
    let r1 : LearnResult α := { r with net := n, trainLoss := r.trainLoss ++ [lossEpoch / ofNat' batches.length] }
    match validation with
    | none => .ok r1
    | some (vi, vt, _) =>
      match n.validate vi vt (lit 1 (-6)) with
      | .error e => .error e
      | .ok (n', l, a) =>
        let l' := match L.get? script (epoch - 1) with | some s => s | none => l
        .ok { r1 with net := n', valLoss := r1.valLoss ++ [l'], valAcc := r1.valAcc ++ [a] }

/-- the early-stopping decision after an epoch -/
def stopAfter (validation : Option (List (Tensor α) × List (Tensor α) × Nat)) (epoch : Nat) (r : LearnResult α) :
    Except Err Bool :=
  match validation with
  | some (_, _, threshold) => shouldStop threshold epoch r.valLoss
  | none => .ok false

def learnLoop (inputs targets : List (Tensor α)) (validation : Option (List (Tensor α) × List (Tensor α) × Nat))
    (batch : Nat) (script : List α) (fuel epoch : Nat) (r : LearnResult α) : Except Err (LearnResult α) :=
  epochLoop (epochStep inputs targets validation batch script) (stopAfter validation) fuel epoch r

/-- `Network::learn` -/
def learn (n : Network α) (inputs targets : List (Tensor α))
    (validation : Option (List (Tensor α) × List (Tensor α) × Nat)) (batch epochs : Nat) (script : List α) :
    Except Err (LearnResult α) :=
  if batch = 0 then .error .reject else          -- `par_chunks(0)` panics
  let n1 := n.setAllTraining true
  match learnLoop inputs targets validation batch script epochs 1 { net := n1, trainLoss := [], valLoss := [], valAcc := [] } with
  | .error e => .error e
  | .ok r => .ok { r with net := r.net.setAllTraining false }

end Network
