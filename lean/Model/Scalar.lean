/-!
# Scalar interface of the model

The model is written once, polymorphic in the scalar type.  It is instantiated at
* `Float32` (here) — the executable model that the correspondence check compares with the Rust code,
* `ℝ` and dual numbers over `ℝ` (in `Proofs/`) — what the theorems are about.

This file is import-free (core Lean only) so that the driver links as a native executable.
-/

/-- The arithmetic the Rust code performs on `f32`, as an interface. -/
class Scalar (α : Type) extends Add α, Sub α, Mul α, Div α, Neg α, Zero α, One α where
  exp : α → α
  ln : α → α
  sqrt : α → α
  tanh : α → α
  cosh : α → α
  /-- Rust `f32::powf`. -/
  powf : α → α → α
  abs : α → α
  /-- IEEE `<` (false on NaN). -/
  lt : α → α → Bool
  /-- IEEE `==` (false on NaN, `-0 == +0`). -/
  beq : α → α → Bool
  /-- `n as f32`. -/
  ofNat' : Nat → α
  /-- decimal literal `m · 10^e` (`0.01 = lit 1 (-2)`), rounded as the Rust compiler rounds it. -/
  lit : Nat → Int → α
  /-- `f32::MIN`, start value of the max-pool scan. -/
  minVal : α
  /-- `f32::NEG_INFINITY`, start value of the soft-max maximum. -/
  negInf : α
  isNaN : α → Bool
  /-- `x as usize`: truncation toward zero, saturating, NaN ↦ 0 -/
  toNat : α → Nat

namespace Scalar
variable {α : Type} [Scalar α]

@[inline] def le (a b : α) : Bool := lt a b || beq a b
@[inline] def two : α := (1 : α) + 1

/-- `x.powi(2)` — compiler-rt computes `1 * (x*x)`, which is `x*x` exactly. -/
@[inline] def sq (x : α) : α := x * x

/-- compiler-rt `__powisf2` for a non-negative exponent: square-and-multiply, in that order. -/
def powiAux : Nat → α → α → Nat → α
  | 0, _, r, _ => r
  | fuel+1, a, r, b =>
    let r := if b % 2 = 1 then r * a else r
    let b := b / 2
    if b = 0 then r else powiAux fuel (a * a) r b

/-- `a.powi(n)` for `n ≥ 0` (the code only uses step numbers ≥ 1). -/
def powi (a : α) (n : Nat) : α := powiAux (n + 1) a 1 n

/-- `f32::clamp` without its `min <= max` assertion (checked by the caller). -/
@[inline] def clampRaw (x lo hi : α) : α :=
  let x := if lt x lo then lo else x
  if lt hi x then hi else x

/-- `f32::max` as used by ReLU / soft-max: NaN is ignored. -/
@[inline] def fmax (a b : α) : α := if lt a b then b else if isNaN a then b else a

end Scalar

/-! ## The executable instance -/

instance : Scalar Float32 where
  exp := Float32.exp
  ln := Float32.log
  sqrt := Float32.sqrt
  tanh := Float32.tanh
  cosh := Float32.cosh
  powf := Float32.pow
  abs := Float32.abs
  lt a b := decide (a < b)
  beq a b := a == b
  ofNat' n := n.toFloat32
  lit m e := if e < 0 then Float32.ofScientific m true e.natAbs else Float32.ofScientific m false e.toNat
  minVal := Float32.ofBits 0xff7fffff
  negInf := Float32.ofBits 0xff800000
  isNaN := Float32.isNaN
  toNat x := x.toUInt64.toNat
