import Model.Tensor
import Model.Random
import Model.Activation

/-!
# Layers: dense, convolution, deconvolution, max-pool (`src/dense.rs`, `src/convolution.rs`,
`src/deconvolution.rs`, `src/maxpool.rs`)

Loops become folds over `List.range` in the same nesting and accumulation order as the Rust loops;
scatter loops (`y[k][oi][oj] += …`) become folds of the functional index update `L.modAt`.
`usize` subtraction is checked (debug profile).
-/

namespace L
variable {β : Type}

/-- `v[c][i][j]` with a default outside (used only where the Rust guard has established the bounds) -/
def get3D (d : β) (v : List (List (List β))) (c i j : Nat) : β :=
  match get? v c with
  | none => d
  | some m => match get? m i with
    | none => d
    | some r => (get? r j).getD d

def get4D (d : β) (v : List (List (List (List β)))) (f c i j : Nat) : β :=
  match get? v f with
  | none => d
  | some t => get3D d t c i j

/-- `y[c][i][j] = g (y[c][i][j])` -/
def mod3 (g : β → β) (y : List (List (List β))) (c i j : Nat) : List (List (List β)) :=
  modAt (fun m => modAt (fun r => modAt g r j) m i) y c

def mod4 (g : β → β) (y : List (List (List (List β)))) (f c i j : Nat) : List (List (List (List β))) :=
  modAt (fun t => mod3 g t c i j) y f

/-- stateful row-major traversal (dropout draws one random number per element, in order) -/
def traverse1 {σ : Type} (f : σ → β → σ × β) : σ → List β → σ × List β
  | s, [] => (s, [])
  | s, x :: xs =>
    let (s1, y) := f s x
    let (s2, ys) := traverse1 f s1 xs
    (s2, y :: ys)

def traverse2 {σ : Type} (f : σ → β → σ × β) : σ → List (List β) → σ × List (List β)
  | s, [] => (s, [])
  | s, r :: rs =>
    let (s1, r') := traverse1 f s r
    let (s2, rs') := traverse2 f s1 rs
    (s2, r' :: rs')

def traverse3 {σ : Type} (f : σ → β → σ × β) : σ → List (List (List β)) → σ × List (List (List β))
  | s, [] => (s, [])
  | s, m :: ms =>
    let (s1, m') := traverse2 f s m
    let (s2, ms') := traverse3 f s1 ms
    (s2, m' :: ms')

/-- `(0..n).step_by(s)` -/
def stepBy (n s : Nat) : List Nat := (List.range n).filter (fun i => i % s == 0)

end L

variable {α : Type} [Scalar α]
open Scalar

/-- `Tensor::dropout`: a generator seeded with 12345, one draw per element in row-major order, the
    element is zeroed when the draw is `< rate` -/
def Tensor.dropout (t : Tensor α) (rate : α) : Except Err (Tensor α) :=
  let f : Rng.Gen → α → Rng.Gen × α := fun g x =>
    match Rng.generate g (0 : α) 1 with
    | .ok (g', v) => (g', if lt v rate then 0 else x)
    | .error _ => (g, x)   -- cannot happen: the state is reduced (`C18.step_ok`)
  let g0 := Rng.create 12345
  match t.data with
  | .single d => .ok ⟨t.shape, .single (L.traverse1 f g0 d).2⟩
  | .double d => .ok ⟨t.shape, .double (L.traverse2 f g0 d).2⟩
  | .triple d => .ok ⟨t.shape, .triple (L.traverse3 f g0 d).2⟩
  | .quadruple d => .ok ⟨t.shape, .quadruple (d.foldl (fun (acc : Rng.Gen × V4 α) k =>
      let (g', k') := L.traverse3 f acc.1 k; (g', acc.2 ++ [k'])) (g0, [])).2⟩

/-- arg-max coordinates per pooling window: `[c][h][w]` → list of `(row, col)` -/
abbrev MaxIdx := List (List (List (List (Nat × Nat))))

/-! ## shared pieces of the spatial layers -/

/-- the flat → spatial acceptance test of `create` (after the repair of D3: `root * root == size`;
    `root = (size as f32).sqrt() as usize`) -/
def squareRoot (α : Type) [Scalar α] (size : Nat) : Except Err Nat :=
  let root := toNat (sqrt (ofNat' size : α))
  if root * root = size then .ok root else .error .reject

/-- re-chunk a flat vector as `c × h × w` the way the layers do at entry:
    `chunks_exact(h*w)` then `chunks_exact(w)` -/
def rechunk (v : V1 α) (h w : Nat) : V3 α :=
  (L.chunksExact (h * w) v).map (fun ch => L.chunksExact w ch)

/-- layer entry: flat input is re-chunked by the layer's recorded input height/width, 3-D input is
    taken as it is; returns the data and the (height, width) the layer will use -/
def entry (x : Tensor α) (inputs : Shape) : Except Err (V3 α × Nat × Nat) :=
  match x.data with
  | .single v =>
    match inputs with
    | .triple _ h w =>
      if h * w = 0 then .error .reject   -- `chunks_exact(0)` panics
      else .ok (rechunk v h w, h, w)
    | _ => .error .reject
  | .triple t =>
    match t with
    | (r :: m) :: _ => .ok (t, (r :: m).length, r.length)
    | _ => .error .index
  | _ => .error .reject

def kernelsOf (ks : List (Tensor α)) : Except Err (List (V3 α)) := L.mapM' Tensor.asTriple ks

/-- `(kf, kc, kh, kw)` read as `kernels.len(), kernels[0].len(), kernels[0][0].len(), kernels[0][0][0].len()` -/
def kernelDims (ks : List (V3 α)) : Except Err (Nat × Nat × Nat × Nat) :=
  match ks with
  | ((r :: m) :: c) :: _ => .ok (ks.length, ((r :: m) :: c).length, (r :: m).length, r.length)
  | _ => .error .index

/-- dropout then flatten, as the tail of every `forward` -/
def finish (post : Tensor α) (training : Bool) (dropout : Option α) (flatten : Bool) : Except Err (Tensor α) :=
  let dropped : Except Err (Tensor α) :=
    if training then
      match dropout with
      | some d => post.dropout d
      | none => .ok post
    else .ok post
  match dropped with
  | .error e => .error e
  | .ok p => if flatten then p.flatten else .ok p

/-! ## DenseLayer -/

structure DenseLayer (α : Type) where
  inputs : Shape
  outputs : Shape
  loops : α
  scale : α → α
  weights : Tensor α
  bias : Option (Tensor α)
  act : Act
  dropout : Option α
  training : Bool

namespace DenseLayer

/-- `Dense::forward` → `(pre, post)` -/
def forward (l : DenseLayer α) (x : Tensor α) : Except Err (Tensor α × Tensor α) :=
  match l.weights.dot x with
  | .error e => .error e
  | .ok pre0 =>
    let pre : Except Err (Tensor α) :=
      match l.bias with
      | some b => pre0.add b
      | none => .ok pre0
    match pre with
    | .error e => .error e
    | .ok pre =>
      match l.act.forward pre with
      | .error e => .error e
      | .ok post =>
        match finish post l.training l.dropout false with
        | .error e => .error e
        | .ok post => .ok (pre, post)

/-- the factor multiplied with the upstream gradient: the activation's derivative, except for a
    soft-max layer, whose objective gradient `predicted − actual` is already the derivative with
    respect to the logits (repair of D6) -/
def localDerivative (l : DenseLayer α) (output : Tensor α) : Except Err (Tensor α) :=
  match l.act with
  | .softmax => Tensor.ones output.shape
  | a => a.backward output

/-- `Dense::backward` → `(input gradient, weight gradient, bias gradient)` -/
def backward (l : DenseLayer α) (gradient input output : Tensor α) :
    Except Err (Tensor α × Tensor α × Option (Tensor α)) :=
  let g : Except Err (Tensor α) :=
    match gradient.shape with
    | .single _ => .ok gradient
    | .triple .. => gradient.flatten
    | _ => .error .reject
  match g, localDerivative l output with
  | .error e, _ => .error e
  | _, .error e => .error e
  | .ok g, .ok d =>
    match d.hadamard g (l.scale l.loops) with
    | .error e => .error e
    | .ok delta =>
      match delta.product input, l.weights.transpose with
      | .error e, _ => .error e
      | _, .error e => .error e
      | .ok wg, .ok wt =>
        match wt.dot delta with
        | .error e => .error e
        | .ok ig => .ok (ig, wg, l.bias.map (fun _ => delta))

def parameters (l : DenseLayer α) : Except Err Nat :=
  match l.inputs, l.outputs with
  | .single i, .single o => .ok (i * o + (if l.bias.isSome then o else 0))
  | _, _ => .error .reject

end DenseLayer

/-! ## Convolution -/

structure Conv (α : Type) where
  inputs : Shape
  outputs : Shape
  loops : α
  scale : α → α
  kernels : List (Tensor α)
  stride : Nat × Nat
  padding : Nat × Nat
  dilation : Nat × Nat
  act : Act
  dropout : Option α
  flatten : Bool
  training : Bool

namespace Conv

/-- `calculate_output_size` (checked subtraction, division by the stride) -/
def outputSize (ih iw : Nat) (filters : Nat) (kernel stride padding dilation : Nat × Nat) : Except Err Shape :=
  match checkedSub kernel.1 1, checkedSub kernel.2 1 with
  | .ok k0, .ok k1 =>
    match checkedSub (ih + 2 * padding.1) (dilation.1 * k0), checkedSub (iw + 2 * padding.2) (dilation.2 * k1) with
    | .ok a, .ok b =>
      match checkedSub a 1, checkedSub b 1 with
      | .ok a', .ok b' =>
        if stride.1 = 0 ∨ stride.2 = 0 then .error .arith
        else .ok (.triple filters (a' / stride.1 + 1) (b' / stride.2 + 1))
      | _, _ => .error .arith
    | _, _ => .error .arith
  | _, _ => .error .arith

/-- output extent of `convolve` for an (already padded) `ih × iw` input and a `kh × kw` kernel:
    `(ih − (kh−1)·d − 1)/s + 1`, checked -/
def extent (l : Conv α) (ih iw kh kw : Nat) : Except Err (Nat × Nat) :=
  match checkedSub kh 1, checkedSub kw 1 with
  | .ok kh1, .ok kw1 =>
    match checkedSub ih (kh1 * l.dilation.1), checkedSub iw (kw1 * l.dilation.2) with
    | .ok a, .ok b =>
      match checkedSub a 1, checkedSub b 1 with
      | .ok a', .ok b' =>
        if l.stride.1 = 0 ∨ l.stride.2 = 0 then .error .arith
        else .ok (a' / l.stride.1 + 1, b' / l.stride.2 + 1)
      | _, _ => .error .arith
    | _, _ => .error .arith
  | _, _ => .error .arith

/-- one output value: the guarded sum over `(c, h, w)` in that order -/
def convolveAt (l : Conv α) (x k : V3 α) (kc kh kw ih iw height width : Nat) : α :=
  (List.range kc).foldl (fun sum c =>
    (List.range kh).foldl (fun sum h =>
      (List.range kw).foldl (fun sum w =>
        let _h := height * l.stride.1 + h * l.dilation.1
        let _w := width * l.stride.2 + w * l.dilation.2
        if _h < ih ∧ _w < iw then sum + L.get3D 0 k c h w * L.get3D 0 x c _h _w else sum)
      sum) sum) (0 : α)

/-- `convolve`: for every filter and output position, `convolveAt` -/
def convolve (l : Conv α) (x : V3 α) (ks : List (V3 α)) : Except Err (V3 α) :=
  match x, kernelDims ks with
  | _, .error e => .error e
  | (r :: m) :: _, .ok (_, kc, kh, kw) =>
    let ih := (r :: m).length
    let iw := r.length
    match extent l ih iw kh kw with
    | .error e => .error e
    | .ok (oh, ow) =>
      .ok (ks.map (fun k =>
        (List.range oh).map (fun height =>
          (List.range ow).map (fun width => convolveAt l x k kc kh kw ih iw height width))))
  | _, _ => .error .index

/-- `Convolution::forward` → `(pre, post)` -/
def forward (l : Conv α) (x : Tensor α) : Except Err (Tensor α × Tensor α) :=
  match entry x l.inputs, kernelsOf l.kernels with
  | .error e, _ => .error e
  | _, .error e => .error e
  | .ok (x, ih, iw), .ok ks =>
    match Tensor.pad3d x (ih + 2 * l.padding.1) (iw + 2 * l.padding.2) with
    | .error e => .error e
    | .ok xp =>
      match convolve l xp ks with
      | .error e => .error e
      | .ok y =>
        match Tensor.triple y with
        | .error e => .error e
        | .ok pre =>
          match l.act.forward pre with
          | .error e => .error e
          | .ok post =>
            match finish post l.training l.dropout l.flatten with
            | .error e => .error e
            | .ok post => .ok (pre, post)

/-- the index list of the backward double loop for one kernel position -/
def taps (l : Conv α) (oh ow h w ph pw : Nat) : List (Nat × Nat × Nat × Nat) :=
  (List.range oh).flatMap (fun m => (List.range ow).filterMap (fun n =>
    let _h := m * l.stride.1 + h * l.dilation.1
    let _w := n * l.stride.2 + w * l.dilation.2
    if _h < ph ∧ _w < pw then some (m, n, _h, _w) else none))

/-- kernel gradient: one guarded sum per `(f, c, h, w)` -/
def kernelGrad (l : Conv α) (xp delta : V3 α) (kf kc kh kw oh ow ph pw : Nat) : V4 α :=
  (List.range kf).map (fun f => (List.range kc).map (fun c =>
    (List.range kh).map (fun h => (List.range kw).map (fun w =>
      (taps l oh ow h w ph pw).foldl (fun sum t =>
        sum + L.get3D 0 xp c t.2.2.1 t.2.2.2 * L.get3D 0 delta f t.1 t.2.1) (0 : α)))))

/-- gradient with respect to the *padded* input: scatter in the loop order `f, c, h, w, m, n` -/
def paddedInputGrad (l : Conv α) (ks : List (V3 α)) (delta : V3 α) (kf kc kh kw oh ow ph pw : Nat) : V3 α :=
  (List.range kf).foldl (fun acc f => (List.range kc).foldl (fun acc c =>
    (List.range kh).foldl (fun acc h => (List.range kw).foldl (fun acc w =>
      (taps l oh ow h w ph pw).foldl (fun acc t =>
        L.mod3 (· + L.get4D 0 ks f c h w * L.get3D 0 delta f t.1 t.2.1) acc c t.2.2.1 t.2.2.2) acc)
      acc) acc) acc) (L.replicate3 kc ph pw 0)

/-- remove the padding frame -/
def crop (l : Conv α) (pgrad : V3 α) (ih iw : Nat) : V3 α :=
  pgrad.map (fun ch => ((ch.drop l.padding.1).take ih).map (fun row => (row.drop l.padding.2).take iw))

/-- `Convolution::backward` (after the repair of D5): kernel and input gradients accumulated in one
    pass that mirrors the index arithmetic of the forward pass; the input gradient is cropped by the
    padding -/
def backward (l : Conv α) (gradient input output : Tensor α) :
    Except Err (Tensor α × Tensor α × Option (Tensor α)) :=
  match gradient.getTriple l.outputs, l.act.backward output with
  | .error e, _ => .error e
  | _, .error e => .error e
  | .ok g, .ok d =>
    match d.getTriple l.outputs, kernelsOf l.kernels, input.getTriple l.inputs with
    | .error e, _, _ => .error e
    | _, .error e, _ => .error e
    | _, _, .error e => .error e
    | .ok d, .ok ks, .ok x =>
      let delta := Tensor.hadamard3d g d (l.scale l.loops)
      match kernelDims ks, x, delta with
      | .error e, _, _ => .error e
      | .ok (kf, kc, kh, kw), (r :: m) :: _, (dr :: dm) :: _ =>
        let ih := (r :: m).length
        let iw := r.length
        let ph := ih + 2 * l.padding.1
        let pw := iw + 2 * l.padding.2
        let oh := (dr :: dm).length
        let ow := dr.length
        match Tensor.pad3d x ph pw with
        | .error e => .error e
        | .ok xp =>
          let kgrad : V4 α := kernelGrad l xp delta kf kc kh kw oh ow ph pw
          let pgrad : V3 α := paddedInputGrad l ks delta kf kc kh kw oh ow ph pw
          let igrad : V3 α := crop l pgrad ih iw
          match Tensor.triple igrad, Tensor.quadruple kgrad with
          | .ok ig, .ok kg => .ok (ig, kg, none)
          | .error e, _ => .error e
          | _, .error e => .error e
      | _, _, _ => .error .index

def parameters (l : Conv α) : Nat :=
  l.kernels.length * (match l.kernels with
    | k :: _ => (match k.data with
      | .triple ((r :: m) :: c) => ((r :: m) :: c).length * (r :: m).length * r.length
      | _ => 0)
    | [] => 0)

end Conv

/-! ## Deconvolution -/

structure Deconv (α : Type) where
  inputs : Shape
  outputs : Shape
  loops : α
  scale : α → α
  kernels : List (Tensor α)
  stride : Nat × Nat
  padding : Nat × Nat
  act : Act
  dropout : Option α
  flatten : Bool
  training : Bool

namespace Deconv

/-- `calculate_output_size`: `(i − 1)·s + k − 2p` -/
def outputSize (ih iw : Nat) (filters : Nat) (kernel stride padding : Nat × Nat) : Except Err Shape :=
  match checkedSub ih 1, checkedSub iw 1 with
  | .ok a, .ok b =>
    match checkedSub (a * stride.1 + kernel.1) (2 * padding.1), checkedSub (b * stride.2 + kernel.2) (2 * padding.2) with
    | .ok h, .ok w => .ok (.triple filters h w)
    | _, _ => .error .arith
  | _, _ => .error .arith

/-- the guarded index list of the scatter loops: `(i, j, ki, kj, oi, oj)` with
    `oi = i·s₀ + ki − p₀`, `oj = j·s₁ + kj − p₁` inside the output -/
def taps (l : Deconv α) (ih iw kh kw oh ow : Nat) : List (Nat × Nat × Nat × Nat × Nat × Nat) :=
  (List.range ih).flatMap (fun i => (List.range iw).flatMap (fun j =>
    (List.range kh).flatMap (fun ki => (List.range kw).filterMap (fun kj =>
      let a := i * l.stride.1 + ki
      let b := j * l.stride.2 + kj
      if l.padding.1 ≤ a ∧ l.padding.2 ≤ b ∧ a - l.padding.1 < oh ∧ b - l.padding.2 < ow
      then some (i, j, ki, kj, a - l.padding.1, b - l.padding.2) else none))))

/-- the scatter loops of the forward pass: for every filter `k`, channel `c` and tap,
    `y[k][oi][oj] += x[c][i][j] * kernels[k][c][ki][kj]`, starting from zeros -/
def scatter (x : V3 α) (ks : List (V3 α)) (kf kc : Nat) (tp : List (Nat × Nat × Nat × Nat × Nat × Nat)) (oh ow : Nat) : V3 α :=
  (List.range kf).foldl (fun acc k => (List.range kc).foldl (fun acc c =>
    tp.foldl (fun acc t =>
      L.mod3 (· + L.get3D 0 x c t.1 t.2.1 * L.get4D 0 ks k c t.2.2.1 t.2.2.2.1) acc k t.2.2.2.2.1 t.2.2.2.2.2)
      acc) acc) (L.replicate3 kf oh ow 0)

/-- `Deconvolution::forward` (output extent computed as `(ih−1)·s + kh − 2p`, the repair of D9) -/
def forward (l : Deconv α) (x : Tensor α) : Except Err (Tensor α × Tensor α) :=
  match entry x l.inputs, kernelsOf l.kernels with
  | .error e, _ => .error e
  | _, .error e => .error e
  | .ok (x, _, _), .ok ks =>
    match x, kernelDims ks with
    | _, .error e => .error e
    | (r :: m) :: _, .ok (kf, kc, kh, kw) =>
      let ih := (r :: m).length
      let iw := r.length
      match outputSize ih iw kf (kh, kw) l.stride l.padding with
      | .error e => .error e
      | .ok (.triple _ oh ow) =>
        let y := scatter x ks kf kc (taps l ih iw kh kw oh ow) oh ow
        match Tensor.triple y with
        | .error e => .error e
        | .ok pre =>
          match l.act.forward pre with
          | .error e => .error e
          | .ok post =>
            match finish post l.training l.dropout l.flatten with
            | .error e => .error e
            | .ok post => .ok (pre, post)
      | .ok _ => .error .reject
    | _, _ => .error .index

/-- one step of the backward scatter: tap `t` of filter `f`, channel `c` adds to the input gradient
    and to the kernel gradient -/
def gradStep (x : V3 α) (ks : List (V3 α)) (delta : V3 α) (f c : Nat) (acc : V3 α × V4 α)
    (t : Nat × Nat × Nat × Nat × Nat × Nat) : V3 α × V4 α :=
  let dv := L.get3D 0 delta f t.2.2.2.2.1 t.2.2.2.2.2
  (L.mod3 (· + dv * L.get4D 0 ks f c t.2.2.1 t.2.2.2.1) acc.1 c t.1 t.2.1,
   L.mod4 (· + dv * L.get3D 0 x c t.1 t.2.1) acc.2 f c t.2.2.1 t.2.2.2.1)

/-- the backward scatter loops over `f, c, taps`, starting from zeros -/
def gradPass (x : V3 α) (ks : List (V3 α)) (delta : V3 α) (kf kc kh kw ih iw : Nat)
    (tp : List (Nat × Nat × Nat × Nat × Nat × Nat)) : V3 α × V4 α :=
  (List.range kf).foldl (fun acc f => (List.range kc).foldl (fun acc c =>
    tp.foldl (gradStep x ks delta f c) acc) acc)
    (L.replicate3 kc ih iw 0, L.replicate4 kf kc kh kw 0)

/-- `Deconvolution::backward` -/
def backward (l : Deconv α) (gradient input output : Tensor α) :
    Except Err (Tensor α × Tensor α × Option (Tensor α)) :=
  match gradient.getTriple l.outputs, l.act.backward output with
  | .error e, _ => .error e
  | _, .error e => .error e
  | .ok g, .ok d =>
    match d.getTriple l.outputs, kernelsOf l.kernels, input.getTriple l.inputs with
    | .error e, _, _ => .error e
    | _, .error e, _ => .error e
    | _, _, .error e => .error e
    | .ok d, .ok ks, .ok x =>
      let delta := Tensor.hadamard3d g d (l.scale l.loops)
      match kernelDims ks, x, delta with
      | .error e, _, _ => .error e
      | .ok (kf, kc, kh, kw), (r :: m) :: _, (dr :: dm) :: _ =>
        let ih := (r :: m).length
        let iw := r.length
        let oh := (dr :: dm).length
        let ow := dr.length
        let tp := taps l ih iw kh kw oh ow
        let res : V3 α × V4 α := gradPass x ks delta kf kc kh kw ih iw tp
        match Tensor.triple res.1, Tensor.quadruple res.2 with
        | .ok ig, .ok kg => .ok (ig, kg, none)
        | .error e, _ => .error e
        | _, .error e => .error e
      | _, _, _ => .error .index

def parameters (l : Deconv α) : Nat :=
  l.kernels.length * (match l.kernels with
    | k :: _ => (match k.data with
      | .triple ((r :: m) :: c) => ((r :: m) :: c).length * (r :: m).length * r.length
      | _ => 0)
    | [] => 0)

end Deconv

/-! ## Max-pool -/

structure Maxpool (α : Type) where
  inputs : Shape
  outputs : Shape
  loops : α
  kernel : Nat × Nat
  stride : Nat × Nat
  flatten : Bool

namespace Maxpool

def outputSize (c ih iw : Nat) (kernel stride : Nat × Nat) : Except Err Shape :=
  match checkedSub ih kernel.1, checkedSub iw kernel.2 with
  | .ok a, .ok b =>
    if stride.1 = 0 ∨ stride.2 = 0 then .error .arith
    else .ok (.triple c (a / stride.1 + 1) (b / stride.2 + 1))
  | _, _ => .error .arith

/-- scan one window: first strict maximum above `f32::MIN`, with its coordinates -/
def window (l : Maxpool α) (x : V3 α) (c h w ih iw : Nat) : α × (Nat × Nat) :=
  (List.range l.kernel.1).foldl (fun acc k =>
    (List.range l.kernel.2).foldl (fun (acc : α × (Nat × Nat)) li =>
      let dh := h + k
      let dw := w + li
      if dh < ih ∧ dw < iw then
        let v := L.get3D 0 x c dh dw
        if lt acc.1 v then (v, (dh, dw)) else acc
      else acc) acc) (minVal, (0, 0))

/-- one window: its maximum and where it was found are written to `[c][h / stride][w / stride]` -/
def poolStep (l : Maxpool α) (x : V3 α) (ih iw c h : Nat) (acc : V3 α × MaxIdx) (w : Nat) : V3 α × MaxIdx :=
  let r := window l x c h w ih iw
  (L.mod3 (fun _ => r.1) acc.1 c (h / l.stride.1) (w / l.stride.2),
   L.mod3 (fun _ => [r.2]) acc.2 c (h / l.stride.1) (w / l.stride.2))

/-- all windows (channels × row offsets × column offsets), written into `oc × oh × ow` zeros -/
def pool (l : Maxpool α) (x : V3 α) (ih iw oc oh ow : Nat) (hs ws : List Nat) : V3 α × MaxIdx :=
  (List.range oc).foldl (fun acc c => hs.foldl (fun acc h => ws.foldl (poolStep l x ih iw c h) acc) acc)
    (L.replicate3 oc oh ow 0, List.replicate oc (List.replicate oh (List.replicate ow [(0, 0)])))

/-- `Maxpool::forward` → `(pre, post, max indices)`; a flat input is re-chunked by the layer's
    *input* height/width (repair of D4) -/
def forward (l : Maxpool α) (x : Tensor α) : Except Err (Tensor α × Tensor α × MaxIdx) :=
  match entry x l.inputs, l.outputs with
  | .error e, _ => .error e
  | .ok (x, ih, iw), .triple oc oh ow =>
    match checkedSub ih l.kernel.1, checkedSub iw l.kernel.2 with
    | .ok a, .ok b =>
      if l.stride.1 = 0 ∨ l.stride.2 = 0 then .error .reject else   -- `step_by(0)` panics
      let hs := L.stepBy (a + 1) l.stride.1
      let ws := L.stepBy (b + 1) l.stride.2
      -- writes go to `y[c][h / stride][w / stride]`; outside the announced extent → index panic
      if oc > x.length ∨ (oc > 0 ∧ (hs.any (fun h => h / l.stride.1 ≥ oh) ∨ ws.any (fun w => w / l.stride.2 ≥ ow)))
      then .error .index else
      let res := pool l x ih iw oc oh ow hs ws
      match Tensor.triple res.1 with
      | .error e => .error e
      | .ok pre =>
        let post : Except Err (Tensor α) := if l.flatten then pre.flatten else .ok pre
        match post with
        | .error e => .error e
        | .ok post => .ok (pre, post, res.2)
    | _, _ => .error .arith
  | _, _ => .error .reject

/-- the output positions `(c, h, w)` in loop order -/
def positions (ic oh ow : Nat) : List (Nat × Nat × Nat) :=
  (List.range ic).flatMap (fun c => (List.range oh).flatMap (fun h => (List.range ow).map (fun w => (c, h, w))))

/-- route the output gradient to the recorded arg-max positions (`+=`, then `*= 1/loops`) -/
def route (l : Maxpool α) (max : MaxIdx) (og : V3 α) (pos : List (Nat × Nat × Nat)) (ic ih iw : Nat) : V3 α :=
  pos.foldl (fun acc p =>
    (L.get3D [] max p.1 p.2.1 p.2.2).foldl (fun acc q =>
      L.mod3 (fun v => (v + L.get3D 0 og p.1 p.2.1 p.2.2) * (1 / l.loops)) acc p.1 q.1 q.2) acc)
    (L.replicate3 ic ih iw (0 : α))

/-- `Maxpool::backward`: every recorded arg-max position receives the output gradient
    (`+=` then `*= 1/loops`) -/
def backward (l : Maxpool α) (gradient : Tensor α) (max : MaxIdx) : Except Err (Tensor α) :=
  match l.inputs, gradient.getTriple l.outputs with
  | _, .error e => .error e
  | .triple ic ih iw, .ok og =>
    match og with
    | (r :: m) :: _ =>
      let oh := (r :: m).length
      let ow := r.length
      -- `max[c][h][w]` must exist for every visited position; `igradient[c][mh][mw]` must be in range
      let pos := positions ic oh ow
      let bad := pos.any (fun p =>
        match L.get? max p.1 with
        | none => true
        | some mc => match L.get? mc p.2.1 with
          | none => true
          | some mh => match L.get? mh p.2.2 with
            | none => true
            | some idxs => (idxs.any (fun q => q.1 ≥ ih ∨ q.2 ≥ iw)) || (L.get? og p.1).isNone)
      if bad then .error .index else
      let ig := route l max og pos ic ih iw
      Tensor.triple ig
    | _ => .error .index
  | _, _ => .error .reject

end Maxpool
