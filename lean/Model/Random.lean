import Model.Tensor

/-!
# The linear congruential generator (`src/random.rs`)

State and recurrence are exact on `Nat`.  The `u64 → f32` conversion is modelled exactly on `Nat`
by `toF32` (used by the theorems about the ratio); the executable `generate` goes through the
`Scalar` interface so that it can be compared bit for bit with the Rust code.
-/

namespace Rng

def modulus : Nat := 2 ^ 31 - 1
def multiplier : Nat := 48271

structure Gen where
  current : Nat
  deriving Repr, DecidableEq

/-- `Generator::create`: the seed is reduced modulo the modulus (after the repair of D1; the pinned
    code stored the raw seed and overflowed on `multiplier * current` for seeds > u64::MAX / 48271). -/
def create (seed : Nat) : Gen := ⟨seed % modulus⟩

/-- one LCG step with the `u64` multiplication checked as the debug profile does -/
def step (g : Gen) : Except Err Gen :=
  let p := multiplier * g.current
  if p < 2 ^ 64 then .ok ⟨p % modulus⟩ else .error .arith

/-- round `n` to a multiple of `2^e`, ties to even (`e ≥ 1`) -/
def roundE (e n : Nat) : Nat :=
  let q := n / 2 ^ e
  let r := n % 2 ^ e
  let half := 2 ^ (e - 1)
  let q' := if half < r ∨ (r = half ∧ q % 2 = 1) then q + 1 else q
  q' * 2 ^ e

/-- exact model of `n as f32` for `n < 2^32`, as an integer (binary32 has 24 significant bits) -/
def toF32 (n : Nat) : Nat :=
  if n < 2 ^ 24 then n
  else if n < 2 ^ 25 then roundE 1 n
  else if n < 2 ^ 26 then roundE 2 n
  else if n < 2 ^ 27 then roundE 3 n
  else if n < 2 ^ 28 then roundE 4 n
  else if n < 2 ^ 29 then roundE 5 n
  else if n < 2 ^ 30 then roundE 6 n
  else if n < 2 ^ 31 then roundE 7 n
  else roundE 8 n

variable {α : Type} [Scalar α]
open Scalar

/-- the value computed from a state: `(current as f32 / (modulus-1) as f32) * (max - min) + min`,
    limited to `[min, max]` (`.max(min).min(max)`, the repair of D1's range part) -/
def value (cur : Nat) (lo hi : α) : α :=
  let v := (ofNat' cur / ofNat' (modulus - 1)) * (hi - lo) + lo
  let v := fmax v lo
  -- `f32::min(v, hi)`
  if lt hi v then hi else v

/-- `Generator::generate` -/
def generate (g : Gen) (lo hi : α) : Except Err (Gen × α) :=
  match step g with
  | .error e => .error e
  | .ok g' => .ok (g', value g'.current lo hi)

/-- `n` consecutive outputs -/
def generateN (lo hi : α) : Nat → Gen → Except Err (Gen × List α)
  | 0, g => .ok (g, [])
  | n+1, g =>
    match generate g lo hi with
    | .error e => .error e
    | .ok (g', v) =>
      match generateN lo hi n g' with
      | .error e => .error e
      | .ok (g'', vs) => .ok (g'', v :: vs)

/-- `values.swap(i, j)` on a list, both indices in range -/
def swap {β : Type} (l : List β) (i j : Nat) : List β :=
  if h : i < l.length ∧ j < l.length then (l.set i l[j]).set j l[i] else l

/-- the index drawn for one swap: `(generate(0, len) as usize).min(len - 1)` -/
def drawIndex (cur len : Nat) : Nat :=
  min (toNat (value (α := α) cur 0 (ofNat' len))) (len - 1)

/-- `Generator::shuffle`, `i` from `0` (fuel = remaining iterations) -/
def shuffleAux {β : Type} (α : Type) [Scalar α] : Nat → Nat → Gen → List β → Except Err (Gen × List β)
  | 0, _, g, l => .ok (g, l)
  | fuel+1, i, g, l =>
    match step g with
    | .error e => .error e
    | .ok g' =>
      let j := drawIndex (α := α) g'.current l.length
      if j < l.length then shuffleAux α fuel (i + 1) g' (swap l i j) else .error .index

def shuffle {β : Type} (α : Type) [Scalar α] (g : Gen) (l : List β) : Except Err (Gen × List β) :=
  shuffleAux α l.length 0 g l

/-- `Tensor::random`-style fill of `n` values from a generator -/
def fill (g : Gen) (lo hi : α) (n : Nat) : Except Err (List α) :=
  match generateN lo hi n g with
  | .ok (_, vs) => .ok vs
  | .error e => .error e


/-- `Tensor::random(shape, min, max)` from a given generator state (the Rust code seeds it from the
    clock): the values are drawn in row-major order and nested as the shape says -/
def randomTensor (g : Gen) (shape : Shape) (lo hi : α) : Except Err (Tensor α) :=
  match shape with
  | .single n => match fill g lo hi n with
    | .ok vs => .ok ⟨shape, .single vs⟩ | .error e => .error e
  | .double r c => match fill g lo hi (r * c) with
    | .ok vs => match L.takeRows c r vs with
      | .ok (rows, _) => .ok ⟨shape, .double rows⟩ | .error e => .error e
    | .error e => .error e
  | .triple ch r c => match fill g lo hi (ch * r * c) with
    | .ok vs => match L.takeMats r c ch vs with
      | .ok (ms, _) => .ok ⟨shape, .triple ms⟩ | .error e => .error e
    | .error e => .error e
  | .quadruple a b r c => match fill g lo hi (a * b * r * c) with
    | .ok vs => match L.takeMats r c (a * b) vs with
      | .ok (ms, _) => .ok ⟨shape, .quadruple (L.chunksExact b ms)⟩ | .error e => .error e
    | .error e => .error e
  | .nested _ => .error .reject

end Rng
