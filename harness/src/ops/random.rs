//! `src/random.rs` (C18).

use crate::exec::Toks;
use crate::util::*;
use neurons::random::Generator;
use neurons::tensor::{Data, Shape};
use rayon::prelude::*;

pub const M: u64 = (1u64 << 31) - 1;
pub const A: u64 = 48271;

fn modpow(mut b: u64, mut e: u64) -> u64 {
    let mut r = 1u64;
    b %= M;
    while e > 0 {
        if e & 1 == 1 {
            r = r * b % M;
        }
        b = b * b % M;
        e >>= 1;
    }
    r
}

/// the seed whose first step lands on `state` (the LCG is a bijection on 1..M-1)
pub fn seed_for_state(state: u64) -> u64 {
    let inv = modpow(A, M - 2);
    state % M * inv % M
}

fn try_run<T, F: FnOnce() -> T>(f: F) -> Option<T> {
    std::panic::catch_unwind(std::panic::AssertUnwindSafe(f)).ok()
}

fn is_perm(a: &[usize], b: &[usize]) -> bool {
    let mut x = a.to_vec();
    let mut y = b.to_vec();
    x.sort();
    y.sort();
    x == y
}

/// the state a generator would be in after `n` steps from `seed` (u128: never overflows)
fn state_after(seed: u64, n: usize) -> u64 {
    let mut s = (seed % M) as u128;
    for _ in 0..n {
        s = s * A as u128 % M as u128;
    }
    s as u64
}

pub fn exec(ctx: &mut Ctx, op: &str, p: &mut Toks) -> String {
    match op {
        "rnd.tof32" => {
            let n = p.u64();
            format!("ok {}", (n as f32) as u64)
        }
        "rnd.tensor" => {
            let sh = p.shape();
            let lo = p.flt();
            let hi = p.flt();
            // a request the function refuses (a shape kind it does not initialise), on this thread and on a worker that dies
            // with it, comes first: the valid request after it is served like any other
            let _ = try_run(|| neurons::tensor::Tensor::random(neurons::tensor::Shape::Quintuple(1, 1, 1, 1, 1), lo, hi));
            let _ = std::thread::spawn(move || { let _ = std::panic::catch_unwind(|| neurons::tensor::Tensor::random(neurons::tensor::Shape::Nested(2), lo, hi)); }).join();
            let res = try_run(|| neurons::tensor::Tensor::random(sh.clone(), lo, hi));
            let input = format!("Tensor::random({}, {:e}, {:e}) after a refused request", shape_tok(&sh), lo, hi);
            match res {
                Some(t) => {
                    // the rendered tensor starts with the recorded shape and the actual nested extents
                    let full = rt(&t);
                    let flat = crate::ops::tensor::flat_any(&t);
                    let toks: Vec<&str> = full.split_whitespace().collect();
                    let skel = toks[..toks.len().saturating_sub(flat.len())].join(" ");
                    let in_range = flat.iter().all(|v| *v >= lo && *v <= hi);
                    let want: Vec<usize> = match &sh { Shape::Single(n) => vec![*n], Shape::Double(a, b) => vec![*a, *b], Shape::Triple(a, b, c) => vec![*a, *b, *c], Shape::Quadruple(a, b, c, d) => vec![*a, *b, *c, *d], _ => vec![] };
                    let uniform = |lens: Vec<usize>, w: usize| lens.iter().all(|l| *l == w);
                    let extents_ok = match &t.data {
                        Data::Single(v) => v.len() == want[0],
                        Data::Double(v) => v.len() == want[0] && uniform(v.iter().map(|r| r.len()).collect(), want[1]),
                        Data::Triple(v) => v.len() == want[0] && uniform(v.iter().map(|m| m.len()).collect(), want[1])
                            && uniform(v.iter().flat_map(|m| m.iter().map(|r| r.len())).collect(), want[2]),
                        Data::Quadruple(v) => v.len() == want[0] && uniform(v.iter().map(|m| m.len()).collect(), want[1])
                            && uniform(v.iter().flat_map(|m| m.iter().map(|r| r.len())).collect(), want[2])
                            && uniform(v.iter().flat_map(|m| m.iter().flat_map(|r| r.iter().map(|x| x.len()))).collect(), want[3]),
                        _ => false,
                    };
                    ctx.oracle(t.shape == sh && extents_ok && flat.len() == want.iter().product::<usize>(), "random-tensor-shape",
                        "a randomly initialised tensor must have the requested shape: recorded shape, nested extents at every level and element count",
                        input.clone(), skel.clone(), format!("{} with extents {:?}", shape_tok(&sh), want));
                    ctx.oracle(in_range, "random-tensor-out-of-range", "every element of a randomly initialised tensor must lie in [min, max]",
                        input, format!("{:?}", flat.iter().cloned().fold(f32::NAN, f32::max)), format!("all in [{:e}, {:e}]", lo, hi));
                    format!("ok {} inrange {}", skel, in_range as u8)
                }
                None => {
                    ctx.oracle(false, "random-tensor-panics", "Tensor::random must not panic for ranks 1-4", input, "panic".into(), "a tensor".into());
                    "err index".to_string()
                }
            }
        }
        "rnd.generate" => {
            let seed = p.u64();
            let lo = p.flt();
            let hi = p.flt();
            let n = p.nat();
            let run = || {
                try_run(|| {
                    let mut g = Generator::create(seed);
                    (0..n).map(|_| g.generate(lo, hi)).collect::<Vec<f32>>()
                })
            };
            let res = run();
            let again = run();
            let input = format!("seed {} generate({:e}, {:e}) x {}", seed, lo, hi, n);
            match (&res, &again) {
                (Some(a), Some(b)) => {
                    let in_range = a.iter().all(|v| *v >= lo && *v <= hi);
                    ctx.oracle(in_range, "generate-out-of-range", "generate(min, max) must return a value in [min, max]",
                        input.clone(), r1(a), format!("all in [{:e}, {:e}]", lo, hi));
                    let pure = a.iter().zip(b.iter()).all(|(x, y)| x.to_bits() == y.to_bits());
                    ctx.oracle(pure, "generate-impure", "the sequence must be a pure function of the seed", input, r1(b), r1(a));
                }
                _ => ctx.oracle(false, "generate-panics", "generate must not panic for any 64-bit seed", input, "panic".into(), "values".into()),
            }
            match res {
                Some(v) => format!("ok {} {}", state_after(seed, n), r1(&v)),
                None => "err arith".into(),
            }
        }
        "rnd.mixed" => {
            // draws from varying intervals and shuffles of varying lengths on ONE generator
            let seed = p.u64();
            let k = p.nat();
            enum Item { G(f32, f32), S(usize) }
            let mut items = Vec::new();
            for _ in 0..k {
                match p.tok() {
                    "g" => { let lo = p.flt(); let hi = p.flt(); items.push(Item::G(lo, hi)); }
                    _ => { let n = p.nat(); items.push(Item::S(n)); }
                }
            }
            // the same script with every one-point interval widened: the other draws and the shuffles must not change
            let widened: Vec<Item> = items.iter().map(|it| match it {
                Item::G(lo, hi) if lo == hi && lo.is_finite() && lo.abs() < 1e30 => Item::G(*lo, *lo + 1.0 + lo.abs()),
                Item::G(lo, hi) => Item::G(*lo, *hi),
                Item::S(n) => Item::S(*n),
            }).collect();
            let changed: Vec<bool> = items.iter().map(|it| matches!(it, Item::G(lo, hi) if lo == hi && lo.is_finite() && lo.abs() < 1e30)).collect();
            let run_items = |items: &Vec<Item>| try_run(|| {
                let mut g = Generator::create(seed);
                let mut out: Vec<String> = Vec::new();
                let mut ok_range = true;
                let mut ok_perm = true;
                let mut steps = 0usize;
                for it in items.iter() {
                    match it {
                        Item::G(lo, hi) => {
                            let v = g.generate(*lo, *hi);
                            if !(v >= *lo && v <= *hi) { ok_range = false; }
                            out.push(rf(v));
                            steps += 1;
                        }
                        Item::S(n) => {
                            let base: Vec<usize> = (0..*n).collect();
                            let mut v = base.clone();
                            g.shuffle(&mut v);
                            if !is_perm(&v, &base) { ok_perm = false; }
                            out.push(format!("[{}]", v.iter().map(|x| x.to_string()).collect::<Vec<_>>().join(" ")));
                            steps += *n;
                        }
                    }
                }
                (out, ok_range, ok_perm, steps)
            });
            let run = || run_items(&items);
            let res = run();
            let again = run();
            let input = format!("seed {} mixed sequence of {} draws / shuffles on one generator", seed, k);
            if changed.iter().any(|c| *c) {
                if let (Some(a), Some(w)) = (&res, &run_items(&widened)) {
                    let same = a.0.len() == w.0.len() && (0..a.0.len()).all(|i| changed[i] || a.0[i] == w.0[i]);
                    ctx.oracle(same, "generate-impure", "the sequence is a function of the seed alone: what a draw returns relative to its interval, and every shuffle, do not depend on the intervals asked for before",
                        input.clone(), a.0.join(" "), w.0.join(" "));
                }
            }
            match (&res, &again) {
                (Some(a), Some(b)) => {
                    ctx.oracle(a.1, "generate-out-of-range", "generate(min, max) must return a value in [min, max] whatever was drawn before", input.clone(), a.0.join(" "), "every draw in its own interval".into());
                    ctx.oracle(a.2, "shuffle-not-permutation", "shuffle must return a permutation of its input whatever was drawn before", input.clone(), a.0.join(" "), "permutations".into());
                    ctx.oracle(a.0 == b.0, "generate-impure", "the sequence must be a pure function of the seed", input, b.0.join(" "), a.0.join(" "));
                }
                _ => ctx.oracle(false, "generate-panics", "generate / shuffle must not panic", input, "panic".into(), "values".into()),
            }
            match res {
                Some((out, _, _, steps)) => format!("ok {} {}", state_after(seed, steps), out.join(" ")),
                None => "err arith".into(),
            }
        }
        "rnd.shuffle" => {
            let seed = p.u64();
            let n = p.nat();
            let vals = p.nats(n);
            let res = try_run(|| {
                let mut g = Generator::create(seed);
                let mut v = vals.clone();
                g.shuffle(&mut v);
                v
            });
            let input = format!("seed {} shuffle {:?}", seed, vals);
            match &res {
                Some(v) => ctx.oracle(is_perm(v, &vals), "shuffle-not-permutation", "shuffle must return a permutation of its input",
                    input, format!("{:?}", v), "a permutation".into()),
                None => ctx.oracle(false, "shuffle-panics", "shuffle must never panic", input, "panic".into(), "a permutation".into()),
            }
            match res {
                Some(v) => format!("ok {} {}", state_after(seed, n), v.iter().map(|x| x.to_string()).collect::<Vec<_>>().join(" ")),
                None => "err index".into(),
            }
        }
        _ => format!("bad unknown op {}", op),
    }
}

/// Thorough tier: every one of the 2^31 - 2 non-zero generator states (and state 0), on the implementation.
pub fn direct(ctx: &mut Ctx) {
    // `(n as f32).sqrt() as usize`-style exactness of the integer conversion is C08's; here: the ranges the
    // library itself uses, checked on every state a generator can be in.
    let (first, last) = if ctx.thorough() { (0u64, M - 1) } else { (M - 1 - (1 << 16), M - 1) };
    let lens: Vec<usize> = vec![1, 2, 3, 5, 10, 64];
    let ranges: Vec<(f32, f32)> = vec![(-1.0, 1.0), (0.0, 1.0), (0.0, 5.0), (0.0, 64.0), (-0.25, 0.75)];
    // one generate() per state and range; one shuffle per state for a rotating length
    let bad: Vec<(u64, String)> = (first..=last)
        .into_par_iter()
        .filter_map(|state| {
            let seed = if state == 0 { 0 } else { seed_for_state(state) };
            let r = std::panic::catch_unwind(|| {
                for (lo, hi) in ranges.iter() {
                    let mut g = Generator::create(seed);
                    let v = g.generate(*lo, *hi);
                    if !(v >= *lo && v <= *hi) {
                        return Some(format!("generate({:e},{:e}) = {:e}", lo, hi, v));
                    }
                }
                None
            });
            match r {
                Ok(None) => (),
                Ok(Some(s)) => return Some((state, s)),
                Err(_) => return Some((state, "generate panics".into())),
            }
            let len = lens[(state % lens.len() as u64) as usize];
            let r = std::panic::catch_unwind(|| {
                let mut g = Generator::create(seed);
                let mut v: Vec<usize> = (0..len).collect();
                g.shuffle(&mut v);
                let mut s = v.clone();
                s.sort();
                s == (0..len).collect::<Vec<usize>>()
            });
            match r {
                Ok(true) => None,
                Ok(false) => Some((state, format!("shuffle of length {} is not a permutation", len))),
                Err(_) => Some((state, format!("shuffle of length {} panics", len))),
            }
        })
        .collect();
    let n = last - first + 1;
    ctx.direct_evals += n;
    ctx.direct_distinct += n;
    ctx.oracle_checks += n;
    ctx.notes.push(format!(
        "state sweep {}..={} ({} states): generate in 5 ranges + one shuffle each; {} failing states",
        first, last, n, bad.len()
    ));
    if ctx.thorough() {
        ctx.exhaustive.push("all 2^31-1 generator states (first step), 5 ranges, shuffle lengths {1,2,3,5,10,64}".into());
    }
    // shuffles longer than 2^24 elements (where `len as f32` is no longer `len`): the index drawn at a critical state
    // (ratio == 1, the draw returns the upper end) must still be below the length.  Lengths whose conversion rounds UP.
    let long_lens: Vec<usize> = if ctx.thorough() { vec![(1 << 24) + 3, (1 << 24) + 7, (1 << 24) + 1, (1 << 25) + 6, (1 << 24) + 2] } else { vec![(1 << 24) + 3, (1 << 24) + 7] };
    let long_states: Vec<u64> = vec![M - 1, M - 2, 1];
    let jobs: Vec<(usize, u64)> = long_lens.iter().flat_map(|l| long_states.iter().map(move |s| (*l, *s))).collect();
    let bad_long: Vec<(u64, String)> = jobs
        .par_iter()
        .filter_map(|(len, state)| {
            let seed = seed_for_state(*state);
            let len = *len;
            let r = std::panic::catch_unwind(|| {
                let mut g = Generator::create(seed);
                let mut v: Vec<usize> = (0..len).collect();
                g.shuffle(&mut v);
                let mut seen = vec![false; len];
                v.len() == len && v.iter().all(|x| *x < len && !std::mem::replace(&mut seen[*x], true))
            });
            match r {
                Ok(true) => None,
                Ok(false) => Some((*state, format!("shuffle of length {} is not a permutation", len))),
                Err(_) => Some((*state, format!("shuffle of length {} panics", len))),
            }
        })
        .collect();
    ctx.direct_evals += jobs.len() as u64;
    ctx.direct_distinct += jobs.len() as u64;
    ctx.oracle_checks += jobs.len() as u64;
    ctx.notes.push(format!("long shuffles (lengths {:?}, first draw at states {:?}): {} failing", long_lens, long_states, bad_long.len()));
    let bad: Vec<(u64, String)> = bad.into_iter().chain(bad_long.into_iter()).collect();
    for (state, what) in bad.iter().take(5) {
        ctx.failures.push(Failure {
            request: String::new(),
            key: if what.contains("shuffle") { "shuffle-panics".into() } else { "generate-out-of-range".into() },
            what: what.clone(),
            input: format!("generator state {} (seed {})", state, seed_for_state(*state)),
            got: what.clone(),
            expected: "in range / a permutation".into(),
        });
    }
}
