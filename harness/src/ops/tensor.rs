//! `src/tensor.rs`: reshaping (C14) and element-wise arithmetic (C15).

use crate::exec::Toks;
use crate::util::*;
use neurons::tensor::{self, Data, Shape, Tensor};

pub fn flat_any(t: &Tensor) -> Vec<f32> {
    match &t.data {
        Data::Single(v) => v.clone(),
        Data::Double(v) => v.iter().flatten().cloned().collect(),
        Data::Triple(v) => v.iter().flatten().flatten().cloned().collect(),
        Data::Quadruple(v) => v.iter().flatten().flatten().flatten().cloned().collect(),
        _ => vec![],
    }
}

pub fn count(s: &Shape) -> usize {
    match s {
        Shape::Single(n) => *n,
        Shape::Double(a, b) => a * b,
        Shape::Triple(a, b, c) => a * b * c,
        Shape::Quadruple(a, b, c, d) => a * b * c * d,
        Shape::Quintuple(a, b, c, d, e) => a * b * c * d * e,
        Shape::Nested(n) => *n,
    }
}

/// does the recorded shape describe the nested lengths of the data?
pub fn shape_matches_data(t: &Tensor) -> bool {
    match (&t.shape, &t.data) {
        (Shape::Single(n), Data::Single(v)) => v.len() == *n,
        (Shape::Double(r, c), Data::Double(v)) => v.len() == *r && v.iter().all(|x| x.len() == *c),
        (Shape::Triple(a, r, c), Data::Triple(v)) => {
            v.len() == *a && v.iter().all(|m| m.len() == *r && m.iter().all(|x| x.len() == *c))
        }
        (Shape::Quadruple(f, a, r, c), Data::Quadruple(v)) => {
            v.len() == *f
                && v.iter().all(|k| {
                    k.len() == *a && k.iter().all(|m| m.len() == *r && m.iter().all(|x| x.len() == *c))
                })
        }
        _ => false,
    }
}

fn same_bits(a: &[f32], b: &[f32]) -> bool {
    a.len() == b.len()
        && a.iter().zip(b.iter()).all(|(x, y)| x.to_bits() == y.to_bits() || (x.is_nan() && y.is_nan()))
}

fn try_run<T, F: FnOnce() -> T>(f: F) -> Option<T> {
    std::panic::catch_unwind(std::panic::AssertUnwindSafe(f)).ok()
}

fn render(r: &Option<Tensor>) -> String {
    match r {
        Some(t) => format!("ok {}", rt(t)),
        None => "err".to_string(),
    }
}

fn binop(
    ctx: &mut Ctx,
    name: &str,
    a: Tensor,
    b: Tensor,
    f: impl Fn(&mut Tensor, &Tensor),
    scalar: impl Fn(f32, f32) -> f32,
) -> String {
    let res = try_run(|| {
        let mut x = a.clone();
        f(&mut x, &b);
        x
    });
    // C15 oracle: element-wise law, shape unchanged, mismatching shapes refused
    if a.shape != b.shape {
        ctx.oracle(
            res.is_none(),
            &format!("{}-accepts-shape-mismatch", name),
            "operands with different shapes must be refused",
            format!("{} {} | {}", name, qt(&a), qt(&b)),
            render(&res),
            "err".into(),
        );
    } else if shape_matches_data(&a) && shape_matches_data(&b) {
        let expect: Vec<f32> = flat_any(&a).iter().zip(flat_any(&b).iter()).map(|(x, y)| scalar(*x, *y)).collect();
        let ok = match &res {
            Some(r) => r.shape == a.shape && shape_matches_data(r) && same_bits(&flat_any(r), &expect),
            None => false,
        };
        ctx.oracle(
            ok,
            &format!("{}-elementwise", name),
            "result must be the element-wise IEEE result with the shape unchanged",
            format!("{} {} | {}", name, qt(&a), qt(&b)),
            render(&res),
            format!("{} {}", shape_tok(&a.shape), r1(&expect)),
        );
    }
    match res {
        Some(t) => format!("ok {}", rt(&t)),
        None => "err shape".into(),
    }
}

pub fn exec(ctx: &mut Ctx, op: &str, p: &mut Toks) -> String {
    match op {
        "t.flatten" => {
            let t = p.tensor();
            let res = try_run(|| t.flatten());
            if let (Data::Triple(_), true) = (&t.data, shape_matches_data(&t) && count(&t.shape) > 0) {
                let ok = match &res {
                    Some(r) => {
                        r.shape == Shape::Single(count(&t.shape))
                            && shape_matches_data(r)
                            && same_bits(&flat_any(r), &flat_any(&t))
                    }
                    None => false,
                };
                ctx.oracle(ok, "flatten-row-major", "flatten must keep the row-major sequence and count",
                    qt(&t), render(&res), format!("S {} {}", count(&t.shape), r1(&flat_any(&t))));
            }
            match res {
                Some(r) => format!("ok {}", rt(&r)),
                None => "err index".into(),
            }
        }
        "t.getflat" => {
            let t = p.tensor();
            let res = try_run(|| t.get_flat());
            if let Some(r) = &res {
                ctx.oracle(same_bits(r, &flat_any(&t)), "getflat-row-major", "get_flat must be the row-major sequence",
                    qt(&t), r1(r), r1(&flat_any(&t)));
            }
            match res {
                Some(r) => format!("ok {}", r1(&r)),
                None => "err unimplemented".into(),
            }
        }
        "t.gettriple" => {
            let t = p.tensor();
            let s = p.shape();
            let res = try_run(|| t.get_triple(&s));
            if let (Some(r), Shape::Triple(c, h, w)) = (&res, &s) {
                let flat: Vec<f32> = r.iter().flatten().flatten().cloned().collect();
                let src = flat_any(&t);
                let ok = match &t.data {
                    Data::Single(_) => {
                        r.len() == *c
                            && r.iter().all(|m| m.len() == *h && m.iter().all(|x| x.len() == *w))
                            && same_bits(&flat, &src[..flat.len().min(src.len())])
                    }
                    _ => same_bits(&flat, &src),
                };
                ctx.oracle(ok, "gettriple-row-major", "get_triple must read the data row-major into the given shape",
                    format!("{} as {}", qt(&t), shape_tok(&s)), rv3(r), "row-major prefix".into());
            }
            match res {
                Some(r) => format!("ok {}", rv3(&r)),
                None => "err index".into(),
            }
        }
        "t.reshape" => {
            let t = p.tensor();
            let s = p.shape();
            let res = try_run(|| t.clone().reshape(s.clone()));
            // C14 oracle on the supported pairs (vector <-> 3-D, 3-D <-> 3-D) for consistent tensors
            let supported = matches!(
                (&t.shape, &s),
                (Shape::Single(_), Shape::Triple(..)) | (Shape::Triple(..), Shape::Single(_)) | (Shape::Triple(..), Shape::Triple(..))
            );
            if supported && shape_matches_data(&t) && count(&t.shape) > 0 {
                if count(&t.shape) == count(&s) {
                    let ok = match &res {
                        Some(r) => r.shape == s && shape_matches_data(r) && same_bits(&flat_any(r), &flat_any(&t)),
                        None => false,
                    };
                    ctx.oracle(ok, "reshape-preserves-sequence",
                        "reshape must keep the row-major sequence, the count, and record the requested shape",
                        format!("{} -> {}", qt(&t), shape_tok(&s)), render(&res),
                        format!("{} {}", shape_tok(&s), r1(&flat_any(&t))));
                    // there and back again
                    if let Some(r) = &res {
                        let back = try_run(|| r.clone().reshape(t.shape.clone()));
                        let ok = match &back {
                            Some(b) => b.shape == t.shape && shape_matches_data(b) && same_bits(&flat_any(b), &flat_any(&t)),
                            None => false,
                        };
                        ctx.oracle(ok, "reshape-round-trip", "reshaping there and back must be the identity",
                            format!("{} -> {} -> back", qt(&t), shape_tok(&s)), render(&back), rt(&t));
                    }
                } else {
                    ctx.oracle(res.is_none(), "reshape-accepts-count-mismatch",
                        "a reshape to a different element count must be refused",
                        format!("{} -> {}", qt(&t), shape_tok(&s)), render(&res), "err".into());
                }
            }
            match res {
                Some(r) => format!("ok {}", rt(&r)),
                None => "err shape".into(),
            }
        }
        "t.add" => {
            let a = p.tensor();
            let b = p.tensor();
            binop(ctx, "add", a, b, |x, y| x.add_inplace(y), |x, y| x + y)
        }
        "t.sub" => {
            let a = p.tensor();
            let b = p.tensor();
            binop(ctx, "sub", a, b, |x, y| x.sub_inplace(y), |x, y| x - y)
        }
        "t.mul" => {
            let a = p.tensor();
            let b = p.tensor();
            binop(ctx, "mul", a, b, |x, y| x.mul_inplace(y), |x, y| x * y)
        }
        "t.had" => {
            let a = p.tensor();
            let b = p.tensor();
            let s = p.flt();
            binop(ctx, "hadamard", a, b, move |x, y| x.hadamard(y, s), move |x, y| x * y * s)
        }
        "t.divs" => {
            let a = p.tensor();
            let s = p.flt();
            let res = try_run(|| {
                let mut x = a.clone();
                x.div_scalar_inplace(s);
                x
            });
            let expect: Vec<f32> = flat_any(&a).iter().map(|x| x / s).collect();
            let ok = match &res {
                Some(r) => r.shape == a.shape && same_bits(&flat_any(r), &expect),
                None => false,
            };
            ctx.oracle(ok, "divscalar-elementwise", "division by a scalar must be element-wise with the shape unchanged",
                format!("{} / {}", qt(&a), hx(s)), render(&res), r1(&expect));
            match res {
                Some(r) => format!("ok {}", rt(&r)),
                None => "err reject".into(),
            }
        }
        "t.mean" => {
            let a = p.tensor();
            let k = p.nat();
            let os = p.tensors(k);
            let res = try_run(|| {
                let mut x = a.clone();
                x.mean_inplace(&os.iter().collect());
                x
            });
            let mismatch = os.iter().any(|o| o.shape != a.shape);
            if k >= 1 && mismatch {
                ctx.oracle(res.is_none(), "mean-accepts-shape-mismatch", "operands with different shapes must be refused",
                    format!("mean {} with {} others", qt(&a), k), render(&res), "err".into());
            } else if k >= 1 && shape_matches_data(&a) {
                let fa = flat_any(&a);
                let fo: Vec<Vec<f32>> = os.iter().map(flat_any).collect();
                let n = (k + 1) as f32;
                // k = 1: one addition and one division, the IEEE result is unique -> bit-exact.
                // k >= 2: the sum of k+1 terms may be associated in any order -> exact value within (k+2)·u·Σ|terms|/(k+1)
                let expect: Vec<f32> = (0..fa.len())
                    .map(|i| {
                        let s: f32 = fo.iter().map(|o| o[i]).sum();
                        (fa[i] + s) / n
                    })
                    .collect();
                let ok = match &res {
                    Some(r) => {
                        let got = flat_any(r);
                        r.shape == a.shape && got.len() == expect.len() && if k == 1 {
                            same_bits(&got, &expect)
                        } else {
                            (0..fa.len()).all(|i| {
                                let sum: f64 = fa[i] as f64 + fo.iter().map(|o| o[i] as f64).sum::<f64>();
                                let mag: f64 = (fa[i] as f64).abs() + fo.iter().map(|o| (o[i] as f64).abs()).sum::<f64>();
                                let e = sum / n as f64;
                                if !got[i].is_finite() || !(e as f32).is_finite() { return got[i].to_bits() == expect[i].to_bits() || (got[i].is_nan() && expect[i].is_nan()); }
                                ((got[i] as f64) - e).abs() <= (k as f64 + 3.0) * 5.97e-8 * mag / n as f64 + 1e-44
                            })
                        }
                    }
                    None => false,
                };
                ctx.oracle(ok, "mean-elementwise", "mean over k+1 tensors must be (self + Σ others)/(k+1) element-wise",
                    format!("mean {} with {} others", qt(&a), k), render(&res), r1(&expect));
            }
            match res {
                Some(r) => format!("ok {}", rt(&r)),
                None => "err shape".into(),
            }
        }
        "t.product" => {
            let a = p.tensor();
            let b = p.tensor();
            let res = try_run(|| a.product(&b));
            if let (Data::Single(x), Data::Single(y)) = (&a.data, &b.data) {
                if !x.is_empty() && !y.is_empty() {
                    let expect: Vec<f32> = x.iter().flat_map(|p| y.iter().map(move |q| p * q)).collect();
                    let ok = match &res {
                        Some(r) => r.shape == Shape::Double(x.len(), y.len()) && shape_matches_data(r) && same_bits(&flat_any(r), &expect),
                        None => false,
                    };
                    ctx.oracle(ok, "outer-product", "product must be the outer product a_i * b_j",
                        format!("{} (x) {}", qt(&a), qt(&b)), render(&res), r1(&expect));
                }
            }
            match res {
                Some(r) => format!("ok {}", rt(&r)),
                None => "err index".into(),
            }
        }
        "t.dot" => {
            let a = p.tensor();
            let b = p.tensor();
            let res = try_run(|| a.dot(&b));
            if let (Data::Double(m), Data::Single(x)) = (&a.data, &b.data) {
                if m.iter().all(|r| r.len() == x.len()) {
                    // the definition in exact arithmetic (f64) with the bound every summation order of an f32
                    // dot product satisfies: |fl(Σ) - Σ| <= n·u·Σ|a·x| (u = 2^-24); the property fixes no order
                    let n = x.len() as f64;
                    let exact: Vec<(f64, f64)> = m.iter().map(|r| {
                        let mut sum = 0.0f64;
                        let mut mag = 0.0f64;
                        for j in 0..x.len() { let t = r[j] as f64 * x[j] as f64; sum += t; mag += t.abs(); }
                        (sum, mag)
                    }).collect();
                    let expect: Vec<f32> = exact.iter().map(|(s, _)| *s as f32).collect();
                    let ok = match &res {
                        Some(r) => {
                            let got = flat_any(r);
                            r.shape == Shape::Single(m.len()) && got.len() == exact.len()
                                && got.iter().zip(exact.iter()).all(|(g, (s, mag))| {
                                    if !g.is_finite() || !s.is_finite() { return (*s as f32).to_bits() == g.to_bits() || (!g.is_finite() && !(*s as f32).is_finite()); }
                                    ((*g as f64) - s).abs() <= 2.0 * (n + 1.0) * 5.97e-8 * mag + 1e-44
                                })
                        }
                        None => false,
                    };
                    ctx.oracle(ok, "matrix-vector", "dot must be the matrix-vector product Σ_j A[i][j] x[j]",
                        format!("{} . {}", qt(&a), qt(&b)), render(&res), r1(&expect));
                }
            }
            match res {
                Some(r) => format!("ok {}", rt(&r)),
                None => "err reject".into(),
            }
        }
        "t.transpose" => {
            let a = p.tensor();
            let res = try_run(|| a.transpose());
            if let Data::Double(m) = &a.data {
                if shape_matches_data(&a) && !m.is_empty() && !m[0].is_empty() {
                    let ok = match &res {
                        Some(Tensor { shape, data: Data::Double(t) }) => {
                            *shape == Shape::Double(m[0].len(), m.len())
                                && t.len() == m[0].len()
                                && t.iter().enumerate().all(|(j, row)| {
                                    row.len() == m.len() && row.iter().enumerate().all(|(i, v)| v.to_bits() == m[i][j].to_bits())
                                })
                        }
                        _ => false,
                    };
                    ctx.oracle(ok, "transpose", "transpose must satisfy T[j][i] = A[i][j]", qt(&a), render(&res), "A^T".into());
                }
            }
            match res {
                Some(r) => format!("ok {}", rt(&r)),
                None => "err index".into(),
            }
        }
        "t.clamp" => {
            let a = p.tensor();
            let lo = p.flt();
            let hi = p.flt();
            let res = try_run(|| a.clone().clamp(lo, hi));
            if lo <= hi {
                let fa = flat_any(&a);
                let ok = match &res {
                    Some(r) => {
                        let fr = flat_any(r);
                        r.shape == a.shape
                            && fr.len() == fa.len()
                            && fr.iter().zip(fa.iter()).all(|(y, x)| {
                                if x.is_nan() {
                                    y.is_nan()
                                } else {
                                    *y >= lo && *y <= hi && (if *x < lo { *y == lo } else if *x > hi { *y == hi } else { y.to_bits() == x.to_bits() })
                                }
                            })
                    }
                    None => false,
                };
                ctx.oracle(ok, "clamp-interval", "clamped values must be the input limited to [min, max]",
                    format!("{} clamp [{:e}, {:e}]", qt(&a), lo, hi), render(&res), "values in the interval".into());
            }
            match res {
                Some(r) => format!("ok {}", rt(&r)),
                None => "err reject".into(),
            }
        }
        "t.addnested" | "t.subnested" | "t.mulnested" => {
            let k = p.nat();
            let a = p.tensors(k);
            let k2 = p.nat();
            let b = p.tensors(k2);
            let which = op;
            let res = try_run(|| {
                let mut x = Tensor::nested(a.clone());
                match which {
                    "t.addnested" => x.add_inplace(&Tensor::nested(b.clone())),
                    "t.subnested" => x.sub_inplace(&Tensor::nested(b.clone())),
                    _ => x.mul_inplace(&Tensor::nested(b.clone())),
                }
                x.unnested()
            });
            // element-wise on every member of the list (equal lengths and equal member shapes)
            if k == k2 && a.iter().zip(b.iter()).all(|(x, y)| x.shape == y.shape && shape_matches_data(x) && shape_matches_data(y)) {
                let f = |p: f32, q: f32| match which { "t.addnested" => p + q, "t.subnested" => p - q, _ => p * q };
                let ok = match &res {
                    Some(r) => r.len() == a.len() && (0..a.len()).all(|i| {
                        let expect: Vec<f32> = flat_any(&a[i]).iter().zip(flat_any(&b[i]).iter()).map(|(p, q)| f(*p, *q)).collect();
                        r[i].shape == a[i].shape && same_bits(&flat_any(&r[i]), &expect)
                    }),
                    None => false,
                };
                ctx.oracle(ok, "nested-elementwise", "add / subtract / multiply on nested lists must be the element-wise IEEE result on every member, shapes unchanged",
                    format!("{} on lists of {} tensors, first {}", which, k, a.first().map(qt).unwrap_or_default()), res.as_ref().map(|r| r.iter().map(rt).collect::<Vec<_>>().join(" ")).unwrap_or("panic".into()), "member-wise result".into());
            }
            // lists of different lengths (or with a member of another shape) differ in shape: refused
            if k != k2 || a.iter().zip(b.iter()).any(|(x, y)| x.shape != y.shape) {
                ctx.oracle(res.is_none(), "nested-shape-mismatch-accepted", "operands whose shapes differ must be refused (nested lists: another number of members, or a member of another shape)",
                    format!("{} on lists of {} and {} tensors", which, k, k2), res.as_ref().map(|r| r.iter().map(rt).collect::<Vec<_>>().join(" ")).unwrap_or("refused".into()), "refused".into());
            }
            match res {
                Some(r) => format!("ok {}", r.iter().map(rt).collect::<Vec<_>>().join(" ")),
                None => "err shape".into(),
            }
        }
        "t.addnestedopt" => {
            let k = p.nat();
            let a: Vec<Option<Tensor>> = (0..k).map(|_| p.opt_tensor()).collect();
            let k2 = p.nat();
            let b: Vec<Option<Tensor>> = (0..k2).map(|_| p.opt_tensor()).collect();
            let res = try_run(|| {
                let mut x = Tensor::nestedoptional(a.clone());
                x.add_inplace(&Tensor::nestedoptional(b.clone()));
                x.unnestedoptional()
            });
            match res {
                Some(r) => format!("ok {}", r.iter().map(rot).collect::<Vec<_>>().join(" ")),
                None => "err shape".into(),
            }
        }
        "t.divnested" => {
            let k = p.nat();
            let a = p.tensors(k);
            let s = p.flt();
            let res = try_run(|| {
                let mut x = Tensor::nested(a.clone());
                x.div_scalar_inplace(s);
                x.unnested()
            });
            match res {
                Some(r) => format!("ok {}", r.iter().map(rt).collect::<Vec<_>>().join(" ")),
                None => "err reject".into(),
            }
        }
        "t.pad3d" => {
            let t = p.tensor();
            let ih = p.nat();
            let iw = p.nat();
            let d = match &t.data {
                Data::Triple(d) => d.clone(),
                _ => return "bad pad3d".into(),
            };
            guarded(|| rv3(&tensor::pad3d(&d, (ih, iw))))
        }
        "t.had3d" => {
            let a = p.tensor();
            let b = p.tensor();
            let s = p.flt();
            match (&a.data, &b.data) {
                (Data::Triple(x), Data::Triple(y)) => {
                    // C15 oracle: the scaled Hadamard product of two 3-D nests of the same extents is element-wise, same extents
                    let dims = |v: &Vec<Vec<Vec<f32>>>| -> Vec<Vec<usize>> { v.iter().map(|m| m.iter().map(|r| r.len()).collect()).collect() };
                    if dims(x) == dims(y) && !x.is_empty() {
                        let res = try_run(|| tensor::hadamard3d(x, y, s));
                        let expect: Vec<Vec<Vec<f32>>> = x.iter().zip(y.iter()).map(|(m, n)| m.iter().zip(n.iter()).map(|(r, t)| r.iter().zip(t.iter()).map(|(e, f)| e * f * s).collect()).collect()).collect();
                        let ok = match &res {
                            Some(r) => dims(r) == dims(x) && r.iter().flatten().flatten().zip(expect.iter().flatten().flatten()).all(|(a, b)| a.to_bits() == b.to_bits() || (a.is_nan() && b.is_nan())),
                            None => false,
                        };
                        ctx.oracle(ok, "hadamard3d-elementwise", "the scaled Hadamard product must be the element-wise IEEE result with the extents unchanged",
                            format!("had3d {} | {} | {:e}", qt(&a), qt(&b), s), res.as_ref().map(|r| r3(r)).unwrap_or("panic".into()), r3(&expect));
                    }
                    guarded(|| r3(&tensor::hadamard3d(x, y, s)))
                }
                _ => "bad had3d".into(),
            }
        }
        "t.argmax" => {
            let a = p.tensor();
            guarded(|| a.argmax().to_string())
        }
        "t.zeros" => {
            let s = p.shape();
            guarded(|| rt(&Tensor::zeros(s)))
        }
        "t.ones" => {
            let s = p.shape();
            guarded(|| rt(&Tensor::ones(s)))
        }
        _ => format!("bad unknown op {}", op),
    }
}
