//! An independent double-precision interpreter of what the *properties* say a network computes
//! (C02, C11, C16, C17) — written from the mathematical definitions in gather form, not from the
//! library's loops — used as the oracle for forward results, and, through central differences, for
//! gradients (C01, C16).  It also derives every layer's shape from the standard size formulas (C08).

use crate::ops::net::{Build, InnerSpec, NetSpec};
use crate::ops::scalar::{act_ref, obj_ref};
use crate::ops::tensor::flat_any;
use neurons::tensor::Shape;
use std::collections::BTreeMap;

#[derive(Clone, Debug, PartialEq)]
pub enum Sh {
    Flat(usize),
    Vol(usize, usize, usize),
}

impl Sh {
    pub fn count(&self) -> usize {
        match self {
            Sh::Flat(n) => *n,
            Sh::Vol(c, h, w) => c * h * w,
        }
    }
    pub fn of(s: &Shape) -> Option<Sh> {
        match s {
            Shape::Single(n) => Some(Sh::Flat(*n)),
            Shape::Triple(c, h, w) => Some(Sh::Vol(*c, *h, *w)),
            _ => None,
        }
    }
    pub fn to_shape(&self) -> Shape {
        match self {
            Sh::Flat(n) => Shape::Single(*n),
            Sh::Vol(c, h, w) => Shape::Triple(*c, *h, *w),
        }
    }
}

/// a value: row-major data with its logical shape
#[derive(Clone, Debug)]
pub struct Val {
    pub d: Vec<f64>,
    pub sh: Sh,
}

#[derive(Clone, Debug)]
pub enum RLayer {
    Dense { w: Vec<Vec<f64>>, b: Option<Vec<f64>>, act: String, out: usize },
    Conv { k: Vec<f64>, kf: usize, kc: usize, kh: usize, kw: usize, s: (usize, usize), p: (usize, usize), d: (usize, usize), act: String, inp: (usize, usize, usize), out: (usize, usize, usize) },
    Deconv { k: Vec<f64>, kf: usize, kc: usize, kh: usize, kw: usize, s: (usize, usize), p: (usize, usize), act: String, inp: (usize, usize, usize), out: (usize, usize, usize) },
    Maxpool { k: (usize, usize), s: (usize, usize), inp: (usize, usize, usize), out: (usize, usize, usize) },
    /// unrolled copies (independent parameter sets, initially equal), block length, flags
    Feedback { copies: Vec<Vec<RLayer>>, inskips: bool, outskips: bool, acc: String, inp: Sh, out: Sh },
}

impl RLayer {
    pub fn in_sh(&self) -> Sh {
        match self {
            RLayer::Dense { w, .. } => Sh::Flat(w.first().map_or(0, |r| r.len())),
            RLayer::Conv { inp, .. } | RLayer::Deconv { inp, .. } | RLayer::Maxpool { inp, .. } => Sh::Vol(inp.0, inp.1, inp.2),
            RLayer::Feedback { inp, .. } => inp.clone(),
        }
    }
    pub fn out_sh(&self) -> Sh {
        match self {
            RLayer::Dense { out, .. } => Sh::Flat(*out),
            RLayer::Conv { out, .. } | RLayer::Deconv { out, .. } | RLayer::Maxpool { out, .. } => Sh::Vol(out.0, out.1, out.2),
            RLayer::Feedback { out, .. } => out.clone(),
        }
    }
    pub fn nparams(&self) -> usize {
        match self {
            RLayer::Dense { w, b, .. } => w.iter().map(|r| r.len()).sum::<usize>() + b.as_ref().map_or(0, |b| b.len()),
            RLayer::Conv { k, .. } | RLayer::Deconv { k, .. } => k.len(),
            RLayer::Maxpool { .. } => 0,
            RLayer::Feedback { copies, .. } => copies.first().map_or(0, |c| c.iter().map(|l| l.nparams()).sum()),
        }
    }
}

pub struct RNet {
    pub input: Sh,
    pub layers: Vec<RLayer>,
    pub connect: BTreeMap<usize, usize>,
    pub loopbacks: BTreeMap<usize, (usize, usize, bool)>,
    pub skipacc: String,
    pub loopacc: String,
    pub obj: String,
}

fn isqrt_exact(n: usize) -> Option<usize> {
    let r = (n as f64).sqrt().round() as usize;
    if r * r == n {
        Some(r)
    } else {
        None
    }
}

/// the shape a spatial layer reads its input as: 3-D as it is, flat r*r as 1 x r x r, otherwise rejected
fn spatial_in(s: &Sh) -> Result<(usize, usize, usize), String> {
    match s {
        Sh::Vol(c, h, w) => Ok((*c, *h, *w)),
        Sh::Flat(n) => isqrt_exact(*n).map(|r| (1, r, r)).ok_or_else(|| format!("flat size {} is not a perfect square", n)),
    }
}

fn flat64(t: &neurons::tensor::Tensor) -> Vec<f64> {
    flat_any(t).iter().map(|x| *x as f64).collect()
}

/// standard size formulas; `Err` = the configuration is invalid (kernel does not fit, size underflows)
fn build_inner(s: &InnerSpec, prev: &Sh) -> Result<RLayer, String> {
    match s {
        InnerSpec::Dense { out, act, bias, w, b, .. } => {
            let n = match prev {
                Sh::Flat(n) => *n,
                Sh::Vol(c, h, w) => c * h * w,
            };
            let fw = flat64(w);
            if fw.len() != out * n {
                return Err(format!("dense weights hold {} values, expected {}x{}", fw.len(), out, n));
            }
            Ok(RLayer::Dense { w: fw.chunks(n.max(1)).map(|r| r.to_vec()).collect(), b: if *bias { b.as_ref().map(flat64) } else { None }, act: act.clone(), out: *out })
        }
        InnerSpec::Conv { filters, act, k, s, p, d, ks, .. } => {
            let inp = spatial_in(prev)?;
            if s.0 == 0 || s.1 == 0 || k.0 == 0 || k.1 == 0 {
                return Err("zero stride or kernel".into());
            }
            let eh = d.0 * (k.0 - 1) + 1;
            let ew = d.1 * (k.1 - 1) + 1;
            if inp.1 + 2 * p.0 < eh || inp.2 + 2 * p.1 < ew {
                return Err("effective kernel does not fit the padded input".into());
            }
            let out = (*filters, (inp.1 + 2 * p.0 - eh) / s.0 + 1, (inp.2 + 2 * p.1 - ew) / s.1 + 1);
            Ok(RLayer::Conv { k: ks.iter().flat_map(flat64).collect(), kf: *filters, kc: inp.0, kh: k.0, kw: k.1, s: *s, p: *p, d: *d, act: act.clone(), inp, out })
        }
        InnerSpec::Deconv { filters, act, k, s, p, ks, .. } => {
            let inp = spatial_in(prev)?;
            if inp.1 == 0 || inp.2 == 0 {
                return Err("empty input".into());
            }
            let oh = (inp.1 - 1) * s.0 + k.0;
            let ow = (inp.2 - 1) * s.1 + k.1;
            if oh <= 2 * p.0 || ow <= 2 * p.1 {
                return Err("padding leaves no output".into());
            }
            let out = (*filters, oh - 2 * p.0, ow - 2 * p.1);
            Ok(RLayer::Deconv { k: ks.iter().flat_map(flat64).collect(), kf: *filters, kc: inp.0, kh: k.0, kw: k.1, s: *s, p: *p, act: act.clone(), inp, out })
        }
        InnerSpec::Maxpool { k, s } => {
            let inp = spatial_in(prev)?;
            if s.0 == 0 || s.1 == 0 || inp.1 < k.0 || inp.2 < k.1 {
                return Err("pooling window does not fit".into());
            }
            Ok(RLayer::Maxpool { k: *k, s: *s, inp, out: (inp.0, (inp.1 - k.0) / s.0 + 1, (inp.2 - k.1) / s.1 + 1) })
        }
    }
}

impl RNet {
    /// `Err(reason)`: by the standard formulas / the documented rules this builder sequence is invalid
    pub fn build(spec: &NetSpec) -> Result<RNet, String> {
        let input = Sh::of(&spec.input).ok_or("unsupported input shape")?;
        let mut layers: Vec<RLayer> = Vec::new();
        let mut connect = BTreeMap::new();
        let mut loopbacks = BTreeMap::new();
        for b in &spec.builds {
            let prev = layers.last().map_or(input.clone(), |l| l.out_sh());
            match b {
                Build::Layer(s) => {
                    if layers.is_empty() {
                        // the first layer must match the kind of network input
                        match (s, &input) {
                            (InnerSpec::Dense { .. }, Sh::Vol(..)) => return Err("dense first layer on image input".into()),
                            (InnerSpec::Dense { .. }, _) => (),
                            (_, Sh::Flat(_)) => return Err("spatial first layer on flat input".into()),
                            _ => (),
                        }
                    }
                    layers.push(build_inner(s, &prev)?);
                }
                Build::Feedback { inner, loops, inskips, outskips, acc } => {
                    if inner.is_empty() || *loops == 0 {
                        return Err("empty block or zero loops".into());
                    }
                    let mut one = Vec::new();
                    let mut cur = prev.clone();
                    for s in inner {
                        if let (InnerSpec::Dense { .. }, Sh::Vol(..)) = (s, &cur) {
                            return Err("dense after spatial inside a block".into());
                        }
                        let l = build_inner(s, &cur)?;
                        cur = l.out_sh();
                        one.push(l);
                    }
                    let inp = one[0].in_sh();
                    if inp != cur {
                        return Err("block output shape differs from its input shape".into());
                    }
                    layers.push(RLayer::Feedback { copies: vec![one; *loops], inskips: *inskips, outskips: *outskips, acc: acc.clone(), inp, out: cur });
                }
                Build::Connect(a, b) => {
                    if *a > *b || *b >= layers.len() {
                        return Err("invalid skip indices".into());
                    }
                    if layers[*a].in_sh().count() != layers[*b].in_sh().count() {
                        return Err("skip between different element counts".into());
                    }
                    if let RLayer::Maxpool { .. } = layers[*a] {
                        return Err("skip from a max-pool input is not supported".into());
                    }
                    if connect.contains_key(b) {
                        return Err("target already has a skip connection".into());
                    }
                    connect.insert(*b, *a);
                }
                Build::Loopback { outof, into, iterations, inskips, .. } => {
                    if *outof >= layers.len() || *into > *outof {
                        return Err("invalid loop indices".into());
                    }
                    if loopbacks.contains_key(outof) {
                        return Err("loop already exists".into());
                    }
                    let o = layers[*outof].out_sh();
                    let i = layers[*into].in_sh();
                    // the library compares the recorded shapes: a flattened output (dense follows) still records its 3-D shape
                    if o != i {
                        return Err("loop output shape differs from the input shape".into());
                    }
                    if layers[*into..=*outof].iter().any(|l| matches!(l, RLayer::Feedback { .. })) {
                        return Err("loop over a feedback block".into());
                    }
                    loopbacks.insert(*outof, (*into, *iterations, *inskips));
                }
            }
        }
        Ok(RNet { input, layers, connect, loopbacks, skipacc: spec.skipacc.clone(), loopacc: spec.loopacc.clone(), obj: spec.obj.clone() })
    }

    /// is the output of layer `i` flattened because a dense layer follows?
    fn flattened(&self, i: usize) -> bool {
        matches!(self.layers.get(i + 1), Some(RLayer::Dense { .. }))
    }
}

fn act_apply(act: &str, v: &[f64]) -> Vec<f64> {
    if act == "softmax" {
        let m = v.iter().cloned().fold(f64::NEG_INFINITY, f64::max);
        let e: Vec<f64> = v.iter().map(|x| (x - m).exp()).collect();
        let s: f64 = e.iter().sum();
        e.iter().map(|x| x / s).collect()
    } else {
        v.iter().map(|x| act_ref(act, *x).0).collect()
    }
}

/// margin to the nearest activation kink / pooling tie seen while evaluating (for the derivative oracle)
pub struct Margin(pub f64);

fn layer_forward(l: &RLayer, x: &[f64], margin: &mut Margin) -> Vec<f64> {
    match l {
        RLayer::Dense { w, b, act, .. } => {
            let pre: Vec<f64> = w.iter().enumerate().map(|(i, r)| r.iter().zip(x.iter()).map(|(a, b)| a * b).sum::<f64>() + b.as_ref().map_or(0.0, |b| b[i])).collect();
            kink(act, &pre, margin);
            act_apply(act, &pre)
        }
        RLayer::Conv { k, kf, kc, kh, kw, s, p, d, act, inp, out } => {
            let (_, ih, iw) = *inp;
            let mut pre = vec![0.0; out.0 * out.1 * out.2];
            for f in 0..*kf {
                for i in 0..out.1 {
                    for j in 0..out.2 {
                        let mut acc = 0.0;
                        for c in 0..*kc {
                            for h in 0..*kh {
                                for w in 0..*kw {
                                    let y = (i * s.0 + h * d.0) as isize - p.0 as isize;
                                    let z = (j * s.1 + w * d.1) as isize - p.1 as isize;
                                    if y >= 0 && z >= 0 && (y as usize) < ih && (z as usize) < iw {
                                        acc += k[((f * kc + c) * kh + h) * kw + w] * x[(c * ih + y as usize) * iw + z as usize];
                                    }
                                }
                            }
                        }
                        pre[(f * out.1 + i) * out.2 + j] = acc;
                    }
                }
            }
            kink(act, &pre, margin);
            act_apply(act, &pre)
        }
        RLayer::Deconv { k, kf, kc, kh, kw, s, p, act, inp, out } => {
            let (_, ih, iw) = *inp;
            let mut pre = vec![0.0; out.0 * out.1 * out.2];
            // gather form: for every output position, the contributing (input, kernel) pairs
            for f in 0..*kf {
                for o in 0..out.1 {
                    for q in 0..out.2 {
                        let mut acc = 0.0;
                        for c in 0..*kc {
                            for i in 0..ih {
                                for ki in 0..*kh {
                                    if i * s.0 + ki != o + p.0 {
                                        continue;
                                    }
                                    for j in 0..iw {
                                        for kj in 0..*kw {
                                            if j * s.1 + kj == q + p.1 {
                                                acc += x[(c * ih + i) * iw + j] * k[((f * kc + c) * kh + ki) * kw + kj];
                                            }
                                        }
                                    }
                                }
                            }
                        }
                        pre[(f * out.1 + o) * out.2 + q] = acc;
                    }
                }
            }
            kink(act, &pre, margin);
            act_apply(act, &pre)
        }
        RLayer::Maxpool { k, s, inp, out } => {
            let (c0, ih, iw) = *inp;
            let mut y = vec![0.0; out.0 * out.1 * out.2];
            for c in 0..c0 {
                for i in 0..out.1 {
                    for j in 0..out.2 {
                        let mut vals: Vec<f64> = Vec::new();
                        for a in 0..k.0 {
                            for b in 0..k.1 {
                                vals.push(x[(c * ih + i * s.0 + a) * iw + j * s.1 + b]);
                            }
                        }
                        let mut sorted = vals.clone();
                        sorted.sort_by(|a, b| b.partial_cmp(a).unwrap());
                        if sorted.len() > 1 {
                            margin.0 = margin.0.min(sorted[0] - sorted[1]);
                        }
                        y[(c * out.1 + i) * out.2 + j] = sorted[0];
                    }
                }
            }
            y
        }
        RLayer::Feedback { copies, inskips, outskips, acc, .. } => {
            // C11: L-fold repeated application; with input skips every repetition after the first receives the
            // previous repetition's output combined with the block's input; with output skips the block's
            // output is combined with the outputs of all earlier repetitions.
            let mut cur = x.to_vec();
            let mut outs: Vec<Vec<f64>> = Vec::new();
            for (r, copy) in copies.iter().enumerate() {
                if r > 0 && *inskips {
                    cur = combine(acc, &cur, &[x.to_vec()]);
                }
                for l in copy {
                    cur = layer_forward(l, &cur, margin);
                }
                outs.push(cur.clone());
            }
            if *outskips && outs.len() > 1 {
                let earlier: Vec<Vec<f64>> = outs[..outs.len() - 1].to_vec();
                cur = combine(acc, &cur, &earlier);
            }
            cur
        }
    }
}

fn kink(act: &str, pre: &[f64], margin: &mut Margin) {
    if act == "relu" || act == "leaky" {
        for v in pre {
            margin.0 = margin.0.min(v.abs());
        }
    }
}

/// the configured accumulation of `x` with the sources `ys` (in order)
pub fn combine(acc: &str, x: &[f64], ys: &[Vec<f64>]) -> Vec<f64> {
    match acc {
        "add" => (0..x.len()).map(|i| x[i] + ys.iter().map(|y| y[i]).sum::<f64>()).collect(),
        "sub" => (0..x.len()).map(|i| x[i] - ys.iter().map(|y| y[i]).sum::<f64>()).collect(),
        "mul" => (0..x.len()).map(|i| x[i] * ys.iter().map(|y| y[i]).product::<f64>()).collect(),
        "mean" => (0..x.len()).map(|i| (x[i] + ys.iter().map(|y| y[i]).sum::<f64>()) / (ys.len() + 1) as f64).collect(),
        "overwrite" => ys.last().cloned().unwrap_or_else(|| x.to_vec()),
        _ => panic!("accumulation"),
    }
}

impl RNet {
    /// the network function per C02 / C16 / C17 (no dropout); returns the input fed to every layer and the output
    pub fn forward(&self, x: &[f64], margin: &mut Margin) -> (Vec<Vec<f64>>, Vec<f64>) {
        let mut inputs: Vec<Vec<f64>> = Vec::new();
        let mut cur = x.to_vec();
        for i in 0..self.layers.len() {
            // C16: the input processed by layer b is the accumulation of its ordinary input with the input fed to layer a
            // (the ordinary input, before a's own skip, is what the library records; both readings coincide for
            // distinct targets because a skip only changes what the target processes)
            let ordinary = cur.clone();
            if let Some(a) = self.connect.get(&i) {
                let src = if *a == i { ordinary.clone() } else { inputs[*a].clone() };
                cur = combine(&self.skipacc, &cur, &[src]);
            }
            let fed = cur.clone();
            let mut o = layer_forward(&self.layers[i], &fed, margin);
            // "the input that was fed to layer a" is read as the library records it: a's ordinary input
            inputs.push(ordinary);
            if let Some((into, iterations, inskips)) = self.loopbacks.get(&i) {
                // C17: k+1 successive outputs obtained by repeatedly applying layers a..b to the previous output
                let mut outs: Vec<Vec<f64>> = Vec::new();
                let mut prev = o.clone();
                for _ in 0..*iterations {
                    let mut v = prev.clone();
                    if *inskips {
                        let base = inputs[*into].clone();
                        v = (0..v.len()).map(|t| v[t] + base[t]).collect();
                    }
                    for j in *into..=i {
                        v = layer_forward(&self.layers[j], &v, margin);
                    }
                    outs.push(v.clone());
                    prev = v;
                }
                if !outs.is_empty() || self.loopacc == "mean" {
                    o = combine(&self.loopacc, &o, &outs);
                }
            }
            cur = o;
        }
        (inputs, cur)
    }

    pub fn objective(&self, out: &[f64], target: &[f64]) -> f64 {
        obj_ref(&self.obj, target, out).0
    }

    /// mutable access to parameter number `idx` of layer `li` (weights row-major, then bias; kernels filter-major);
    /// for feedback blocks: copy `copy`, inner layer `inner`
    pub fn param_mut(&mut self, li: usize, copy: usize, inner: usize, idx: usize) -> Option<&mut f64> {
        fn of_layer(l: &mut RLayer, idx: usize) -> Option<&mut f64> {
            match l {
                RLayer::Dense { w, b, .. } => {
                    let cols = w.first().map_or(0, |r| r.len());
                    let nw = w.len() * cols;
                    if idx < nw {
                        Some(&mut w[idx / cols][idx % cols])
                    } else {
                        b.as_mut().and_then(|b| b.get_mut(idx - nw))
                    }
                }
                RLayer::Conv { k, .. } | RLayer::Deconv { k, .. } => k.get_mut(idx),
                _ => None,
            }
        }
        match &mut self.layers[li] {
            RLayer::Feedback { copies, .. } => copies.get_mut(copy).and_then(|c| c.get_mut(inner)).and_then(|l| of_layer(l, idx)),
            l => of_layer(l, idx),
        }
    }
}

pub fn shapes_match(announced: &Shape, expected: &Sh) -> bool {
    Sh::of(announced).map_or(false, |s| s == *expected)
}
