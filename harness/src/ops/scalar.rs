//! `src/activation.rs` (C07), `src/objective.rs` (C06), `src/optimizer.rs` (C03).

use crate::exec::Toks;
use crate::ops::tensor::{flat_any, shape_matches_data};
use crate::util::*;
use neurons::activation::{Activation, Function as ActFn};
use neurons::objective::{Function as ObjFn, Objective};
use neurons::optimizer::{self, Optimizer};
use neurons::tensor::{Data, Shape, Tensor};
use rayon::prelude::*;

fn try_run<T, F: FnOnce() -> T>(f: F) -> Option<T> {
    std::panic::catch_unwind(std::panic::AssertUnwindSafe(f)).ok()
}

pub fn act_of(name: &str) -> Activation {
    match name {
        "relu" => Activation::ReLU,
        "leaky" => Activation::LeakyReLU,
        "sigmoid" => Activation::Sigmoid,
        "softmax" => Activation::Softmax,
        "tanh" => Activation::Tanh,
        "linear" => Activation::Linear,
        _ => panic!("activation {}", name),
    }
}

pub fn obj_of(name: &str) -> Objective {
    match name {
        "ae" => Objective::AE,
        "mae" => Objective::MAE,
        "mse" => Objective::MSE,
        "rmse" => Objective::RMSE,
        "ce" => Objective::CrossEntropy,
        "bce" => Objective::BinaryCrossEntropy,
        "kl" => Objective::KLDivergence,
        _ => panic!("objective {}", name),
    }
}

/// the defined function and its derivative, in double precision
pub fn act_ref(name: &str, x: f64) -> (f64, f64) {
    match name {
        "relu" => (x.max(0.0), if x > 0.0 { 1.0 } else { 0.0 }),
        "leaky" => (if x > 0.0 { x } else { 0.01f32 as f64 * x }, if x > 0.0 { 1.0 } else { 0.01f32 as f64 }),
        "sigmoid" => {
            let y = 1.0 / (1.0 + (-x).exp());
            (y, y * (1.0 - y))
        }
        "tanh" => (x.tanh(), 1.0 / (x.cosh() * x.cosh())),
        "linear" => (x, 1.0),
        _ => (f64::NAN, f64::NAN),
    }
}

fn close(a: f32, r: f64, rel: f64, abs: f64) -> bool {
    let a = a as f64;
    if !a.is_finite() {
        return false;
    }
    // the reference may overflow/underflow the f32 range: compare after saturating it
    let r = if r.abs() < 1e-45 { 0.0 } else { r };
    (a - r).abs() <= rel * r.abs().max(a.abs()) + abs
}

/// C07 per-element oracle; returns a description of the first failure
pub fn act_elem_check(name: &str, x: f32, fwd: f32, bwd: f32) -> Option<String> {
    if !x.is_finite() {
        return None;
    }
    let (rf_, rb) = act_ref(name, x as f64);
    if !fwd.is_finite() {
        return Some(format!("forward({:e}) = {:e} is not finite", x, fwd));
    }
    if !bwd.is_finite() {
        return Some(format!("backward({:e}) = {:e} is not finite", x, bwd));
    }
    if !close(fwd, rf_, 4e-6, 1e-37) {
        return Some(format!("forward({:e}) = {:e}, defined function gives {:e}", x, fwd, rf_));
    }
    // the derivative of tanh/sigmoid underflows gracefully; allow an absolute slack at the f32 floor
    // sigmoid' = y(1-y) is computed from the rounded y: the rounding of y (<= 2^-24 absolute) carries over
    // to the product as an absolute error, so the comparison is absolute there
    // the same holds for tanh' computed as 1 - tanh^2 (the rounding of tanh, <= 2^-24, carries over absolutely);
    // both 1/cosh^2 and 1 - tanh^2 are the derivative up to single-precision rounding of an O(1) function
    let abs_slack = if name == "sigmoid" || name == "tanh" { 2e-7 } else { 1e-37 };
    if !close(bwd, rb, 8e-6, abs_slack) {
        return Some(format!("backward({:e}) = {:e}, derivative is {:e}", x, bwd, rb));
    }
    match name {
        "sigmoid" if !(0.0..=1.0).contains(&fwd) => Some(format!("sigmoid({:e}) = {:e} outside [0,1]", x, fwd)),
        "tanh" if !(-1.0..=1.0).contains(&fwd) => Some(format!("tanh({:e}) = {:e} outside [-1,1]", x, fwd)),
        _ => None,
    }
}

fn render(r: &Option<Tensor>) -> String {
    match r {
        Some(t) => format!("ok {}", rt(t)),
        None => "err".into(),
    }
}

fn softmax_checks(ctx: &mut Ctx, input: &Tensor, out: &Option<Tensor>) {
    let x = flat_any(input);
    if x.is_empty() || x.iter().any(|v| !v.is_finite()) {
        return;
    }
    let desc = format!("softmax {}", qt(input));
    match out {
        None => ctx.oracle(false, "softmax-panics", "soft-max must be defined on every finite vector", desc, "panic".into(), "probabilities".into()),
        Some(y) => {
            let p = flat_any(y);
            let ok_shape = y.shape == input.shape && shape_matches_data(y);
            let finite = p.iter().all(|v| v.is_finite());
            let nonneg = p.iter().all(|v| *v >= 0.0);
            let sum: f64 = p.iter().map(|v| *v as f64).sum();
            let ok_sum = (sum - 1.0).abs() <= 1e-5 * (p.len() as f64).max(1.0);
            // against the mathematical definition in double precision (max-subtracted for range only)
            let mx = x.iter().cloned().fold(f32::NEG_INFINITY, f32::max) as f64;
            let e: Vec<f64> = x.iter().map(|v| (*v as f64 - mx).exp()).collect();
            let s: f64 = e.iter().sum();
            let ok_def = p.iter().zip(e.iter()).all(|(a, b)| close(*a, b / s, 1e-5, 1e-7));
            ctx.oracle(ok_shape && finite && nonneg && ok_sum && ok_def, "softmax-laws",
                "soft-max must be finite, non-negative, sum to one, equal exp(x_i)/Σexp(x_j) and keep the shape",
                desc, r1(&p), format!("shape {} finite {} nonneg {} sum {} def {}", ok_shape, finite, nonneg, sum, ok_def));
        }
    }
}

pub fn exec(ctx: &mut Ctx, op: &str, p: &mut Toks) -> String {
    match op {
        "act.fwd" | "act.bwd" => {
            let name = p.tok().to_string();
            let t = p.tensor();
            let f = ActFn::create(&act_of(&name));
            let fwd = try_run(|| f.forward(&t));
            let bwd = try_run(|| f.backward(&t));
            // a copy of the function value is the same function (layers are copied when a feedback block is unrolled)
            {
                let c = f.clone();
                let (cf, cb) = (try_run(|| c.forward(&t)), try_run(|| c.backward(&t)));
                let same = |a: &Option<Tensor>, b: &Option<Tensor>| match (a, b) { (Some(a), Some(b)) => rt(a) == rt(b), (None, None) => true, _ => false };
                ctx.oracle(same(&fwd, &cf) && same(&bwd, &cb), "activation-copy-differs", "a copy of an activation function computes the same function and derivative, bit for bit",
                    format!("{} {}", name, qt(&t)), format!("{} / {}", cf.as_ref().map(rt).unwrap_or("panic".into()), cb.as_ref().map(rt).unwrap_or("panic".into())),
                    format!("{} / {}", fwd.as_ref().map(rt).unwrap_or("panic".into()), bwd.as_ref().map(rt).unwrap_or("panic".into())));
            }
            // C07 oracles on well-formed flat / 3-D inputs
            let supported = matches!(t.data, Data::Single(_) | Data::Triple(_)) && shape_matches_data(&t) && !flat_any(&t).is_empty();
            if supported {
                if name == "softmax" {
                    if op == "act.fwd" {
                        softmax_checks(ctx, &t, &fwd);
                    }
                } else {
                    let x = flat_any(&t);
                    match (&fwd, &bwd) {
                        (Some(a), Some(b)) => {
                            let shape_ok = a.shape == t.shape && b.shape == t.shape && shape_matches_data(a) && shape_matches_data(b);
                            ctx.oracle(shape_ok, "activation-shape", "output shape must equal input shape", format!("{} {}", name, qt(&t)), format!("{} / {}", shape_tok(&a.shape), shape_tok(&b.shape)), shape_tok(&t.shape));
                            let (fa, fb) = (flat_any(a), flat_any(b));
                            let bad = (0..x.len().min(fa.len()).min(fb.len())).find_map(|i| act_elem_check(&name, x[i], fa[i], fb[i]));
                            ctx.oracle(bad.is_none(), "activation-function", "forward must be the defined function and backward its derivative, finite and in range",
                                format!("{} {}", name, qt(&t)), bad.clone().unwrap_or_default(), "defined function / derivative".into());
                        }
                        _ => ctx.oracle(false, "activation-panics", "activations are total on finite inputs", format!("{} {}", name, qt(&t)), "panic".into(), "a tensor".into()),
                    }
                }
            }
            let r = if op == "act.fwd" { fwd } else { bwd };
            match r {
                Some(t) => format!("ok {}", rt(&t)),
                None => "err reject".into(),
            }
        }
        "obj.loss" => {
            let name = p.tok().to_string();
            let clamp = if p.peek_none() { None } else { Some((p.flt(), p.flt())) };
            let pred = p.tensor();
            let target = p.tensor();
            let f = ObjFn::create(obj_of(&name), clamp);
            let res = try_run(|| f.loss(&pred, &target));
            objective_checks(ctx, &name, clamp, &pred, &target, &res);
            match res {
                Some((l, g)) => format!("ok {} {}", rf(l), rt(&g)),
                None => "err reject".into(),
            }
        }
        "obj.reset" => {
            // the objective configured through `Network::set_objective`, called twice: the second call decides alone
            let name1 = p.tok().to_string();
            let clamp1 = if p.peek_none() { None } else { Some((p.flt(), p.flt())) };
            let name = p.tok().to_string();
            let clamp = if p.peek_none() { None } else { Some((p.flt(), p.flt())) };
            let pred = p.tensor();
            let target = p.tensor();
            let res = try_run(|| {
                let mut net = neurons::network::Network::new(Shape::Single(1));
                net.set_objective(obj_of(&name1), clamp1);
                net.set_objective(obj_of(&name), clamp);
                net.verif_objective(&pred, &target)
            });
            objective_checks(ctx, &name, clamp, &pred, &target, &res);
            match res {
                Some((l, g)) => format!("ok {} {}", rf(l), rt(&g)),
                None => "err reject".into(),
            }
        }
        "obj.seq" => {
            // ONE objective value evaluated on several pairs in a row (of different sizes and ranks): every evaluation
            // depends on its own pair only
            let name = p.tok().to_string();
            let clamp = if p.peek_none() { None } else { Some((p.flt(), p.flt())) };
            let k = p.nat();
            let pairs: Vec<(Tensor, Tensor)> = (0..k).map(|_| { let a = p.tensor(); let b = p.tensor(); (a, b) }).collect();
            let f = ObjFn::create(obj_of(&name), clamp);
            let mut out = Vec::new();
            for (pred, target) in pairs.iter() {
                let res = try_run(|| f.loss(pred, target));
                objective_checks(ctx, &name, clamp, pred, target, &res);
                out.push(match res {
                    Some((l, g)) => format!("{} {}", rf(l), rt(&g)),
                    None => "reject".into(),
                });
            }
            format!("ok {}", out.join(" | "))
        }
        "opt.run" => opt_run(ctx, p),
        _ => format!("bad unknown op {}", op),
    }
}

/* ------------------------------------------------------------------------------------------------
 * C06
 * --------------------------------------------------------------------------------------------- */

/// documented formulas in double precision: (loss, per-element gradient)
pub fn obj_ref(name: &str, a: &[f64], p: &[f64]) -> (f64, Vec<f64>) {
    let n = a.len() as f64;
    let eps = 1e-6f32 as f64;
    let one_m = (1.0f32 - 1e-6f32) as f64;
    let cl = |x: f64| x.max(eps).min(one_m);
    match name {
        "ae" => (
            a.iter().zip(p).map(|(a, p)| (a - p).abs()).sum(),
            a.iter().zip(p).map(|(a, p)| if a == p { 0.0 } else if a > p { -1.0 } else { 1.0 }).collect(),
        ),
        "mae" => (
            a.iter().zip(p).map(|(a, p)| (a - p).abs()).sum::<f64>() / n,
            a.iter().zip(p).map(|(a, p)| if a == p { 0.0 } else if a > p { -1.0 } else { 1.0 }).collect(),
        ),
        "mse" => (
            a.iter().zip(p).map(|(a, p)| (a - p) * (a - p)).sum::<f64>() / n,
            a.iter().zip(p).map(|(a, p)| -2.0 * (a - p) / n).collect(),
        ),
        "rmse" => (
            (a.iter().zip(p).map(|(a, p)| (a - p) * (a - p)).sum::<f64>() / n).sqrt(),
            a.iter().zip(p).map(|(a, p)| if a == p { 0.0 } else { -(a - p) / ((a - p).abs() * n) }).collect(),
        ),
        "ce" => (
            -a.iter().zip(p).map(|(a, p)| a * cl(*p).ln()).sum::<f64>(),
            a.iter().zip(p).map(|(a, p)| p - a).collect(),
        ),
        "bce" => (
            -a.iter().zip(p).map(|(a, p)| a * cl(*p).ln() + (1.0 - a) * (1.0 - cl(*p)).ln()).sum::<f64>(),
            a.iter().zip(p).map(|(a, p)| (cl(*p) - a) / (cl(*p) * (1.0 - cl(*p)))).collect(),
        ),
        "kl" => (
            a.iter().zip(p).map(|(a, p)| if *a == 0.0 { 0.0 } else { a * (a / cl(*p)).ln() }).sum::<f64>(),
            a.iter().zip(p).map(|(a, p)| -a / cl(*p)).collect(),
        ),
        _ => (f64::NAN, vec![]),
    }
}

fn in_domain(name: &str, a: &[f32], p: &[f32]) -> bool {
    let fin = a.iter().chain(p.iter()).all(|x| x.is_finite());
    match name {
        "ce" | "bce" | "kl" => fin && a.iter().chain(p.iter()).all(|x| (0.0..=1.0).contains(x)),
        _ => fin,
    }
}

fn objective_checks(ctx: &mut Ctx, name: &str, clamp: Option<(f32, f32)>, pred: &Tensor, target: &Tensor, res: &Option<(f32, Tensor)>) {
    let same_kind = matches!((&pred.data, &target.data), (Data::Single(_), Data::Single(_)) | (Data::Triple(_), Data::Triple(_)));
    if !same_kind || pred.shape != target.shape || !shape_matches_data(pred) || !shape_matches_data(target) {
        return;
    }
    let (a, p) = (flat_any(target), flat_any(pred));
    if a.is_empty() || !in_domain(name, &a, &p) {
        return;
    }
    if let Some((lo, hi)) = clamp {
        if !(lo <= hi) {
            return;
        }
    }
    let desc = format!("{} clamp {:?} prediction {} target {}", name, clamp, qt(pred), qt(target));
    let (loss, grad) = match res {
        Some(r) => r,
        None => {
            ctx.oracle(false, "objective-panics", "the objective must be defined on in-domain inputs", desc, "panic".into(), "(loss, gradient)".into());
            return;
        }
    };
    // moderate magnitudes only for the numeric comparison (squares must not overflow f32)
    let moderate = a.iter().chain(p.iter()).all(|x| x.abs() < 1e15);
    ctx.oracle(loss.is_finite() || !moderate, &format!("{}-loss-not-finite", name), "the loss must be finite for finite in-domain inputs (including exact 0 and 1)",
        desc.clone(), format!("{:e}", loss), "finite".into());
    ctx.oracle(grad.shape == pred.shape && shape_matches_data(grad), "gradient-shape", "the gradient must have the prediction's shape",
        desc.clone(), shape_tok(&grad.shape), shape_tok(&pred.shape));
    if !moderate {
        return;
    }
    let a64: Vec<f64> = a.iter().map(|x| *x as f64).collect();
    let p64: Vec<f64> = p.iter().map(|x| *x as f64).collect();
    let (rl, rg) = obj_ref(name, &a64, &p64);
    // the f32 loss is a sum of up to n rounded terms; tolerance relative to the sum of magnitudes
    // … for AE / MAE / MSE / RMSE every term is non-negative, so nothing cancels and the loss is known to a RELATIVE
    // accuracy of a few units in the last place however small it is (absolute floor: where a square underflows)
    let ok_loss = match name {
        "ae" | "mae" | "mse" => close(*loss, rl, 2e-5, 1e-36),
        "rmse" => close(*loss, rl, 2e-5, 1e-18),
        _ => close(*loss, rl, 2e-5, 1e-6 * (1.0 + rl.abs())),
    };
    ctx.oracle(ok_loss || !loss.is_finite(), &format!("{}-loss-formula", name), "the loss must equal the documented formula", desc.clone(), format!("{:e}", loss), format!("{:e}", rl));
    let g = flat_any(grad);
    let expect: Vec<f64> = rg.iter().map(|v| match clamp { Some((lo, hi)) => v.max(lo as f64).min(hi as f64), None => *v }).collect();
    // RMSE's per-element gradient divides by |a-p| computed as sqrt((a-p)^2), which underflows for tiny differences:
    // recorded as outside the property's claim (only AE, MSE, BCE, KL are claimed to be derivatives); formula check needs |a-p| > 1e-15
    let skip = name == "rmse" && a.iter().zip(p.iter()).any(|(x, y)| x != y && (x - y).abs() < 1e-15);
    if !skip {
        let ok_grad = g.len() == expect.len() && g.iter().zip(expect.iter()).all(|(x, r)| close(*x, *r, 2e-5, 1e-30));
        ctx.oracle(ok_grad, &format!("{}-gradient-formula", name), "the gradient must equal the documented formula (limited to the clamp interval)", desc, r1(&g), format!("{:?}", expect));
    }
}

/* ------------------------------------------------------------------------------------------------
 * C03
 * --------------------------------------------------------------------------------------------- */

#[derive(Clone, Debug)]
pub enum OptSpec {
    Sgd(f32, Option<f32>),
    Sgdm(f32, f32, f32, Option<f32>),
    Adam(f32, f32, f32, f32, Option<f32>),
    AdamW(f32, f32, f32, f32, f32),
    Rmsprop(f32, f32, f32, Option<f32>, Option<f32>, bool),
}

impl OptSpec {
    pub fn parse(p: &mut Toks) -> OptSpec {
        match p.tok() {
            "sgd" => OptSpec::Sgd(p.flt(), p.opt_f()),
            "sgdm" => OptSpec::Sgdm(p.flt(), p.flt(), p.flt(), p.opt_f()),
            "adam" => OptSpec::Adam(p.flt(), p.flt(), p.flt(), p.flt(), p.opt_f()),
            "adamw" => OptSpec::AdamW(p.flt(), p.flt(), p.flt(), p.flt(), p.flt()),
            "rmsprop" => OptSpec::Rmsprop(p.flt(), p.flt(), p.flt(), p.opt_f(), p.opt_f(), p.boolean()),
            t => panic!("optimizer {}", t),
        }
    }
    pub fn token(&self) -> String {
        let o = |x: &Option<f32>| x.map_or("none".to_string(), hx);
        match self {
            OptSpec::Sgd(lr, d) => format!("sgd {} {}", hx(*lr), o(d)),
            OptSpec::Sgdm(lr, m, da, d) => format!("sgdm {} {} {} {}", hx(*lr), hx(*m), hx(*da), o(d)),
            OptSpec::Adam(lr, b1, b2, e, d) => format!("adam {} {} {} {} {}", hx(*lr), hx(*b1), hx(*b2), hx(*e), o(d)),
            OptSpec::AdamW(lr, b1, b2, e, d) => format!("adamw {} {} {} {} {}", hx(*lr), hx(*b1), hx(*b2), hx(*e), hx(*d)),
            OptSpec::Rmsprop(lr, a, e, d, m, c) => format!("rmsprop {} {} {} {} {} {}", hx(*lr), hx(*a), hx(*e), o(d), o(m), *c as u8),
        }
    }
    pub fn create(&self) -> Optimizer {
        match self {
            OptSpec::Sgd(lr, d) => optimizer::SGD::create(*lr, *d),
            OptSpec::Sgdm(lr, m, da, d) => optimizer::SGDM::create(*lr, *m, *da, *d),
            OptSpec::Adam(lr, b1, b2, e, d) => optimizer::Adam::create(*lr, *b1, *b2, *e, *d),
            OptSpec::AdamW(lr, b1, b2, e, d) => optimizer::AdamW::create(*lr, *b1, *b2, *e, *d),
            OptSpec::Rmsprop(lr, a, e, d, m, c) => optimizer::RMSprop::create(*lr, *a, *e, *d, *m, *c),
        }
    }
    pub fn kind(&self) -> &'static str {
        match self {
            OptSpec::Sgd(..) => "sgd",
            OptSpec::Sgdm(..) => "sgdm",
            OptSpec::Adam(..) => "adam",
            OptSpec::AdamW(..) => "adamw",
            OptSpec::Rmsprop(..) => "rmsprop",
        }
    }
    /// the same optimizer with every hyper-parameter that was left at 0 ("use the default") replaced by the documented
    /// default written out; `None` when nothing was left at 0
    pub fn with_explicit_defaults(&self) -> Option<OptSpec> {
        let d = |x: f32, dv: f32| if x == 0.0 { dv } else { x };
        let r = match self {
            OptSpec::Sgd(lr, dc) => OptSpec::Sgd(d(*lr, 0.1), *dc),
            OptSpec::Sgdm(lr, m, da, dc) => OptSpec::Sgdm(d(*lr, 0.1), d(*m, 0.9), *da, *dc),
            OptSpec::Adam(lr, b1, b2, e, dc) => OptSpec::Adam(d(*lr, 0.001), d(*b1, 0.9), d(*b2, 0.999), d(*e, 1e-8), *dc),
            OptSpec::AdamW(lr, b1, b2, e, dc) => OptSpec::AdamW(d(*lr, 0.001), d(*b1, 0.9), d(*b2, 0.999), d(*e, 1e-8), *dc),
            OptSpec::Rmsprop(lr, a, e, dc, m, c) => OptSpec::Rmsprop(d(*lr, 0.01), d(*a, 0.99), d(*e, 1e-8), *dc, *m, *c),
        };
        if format!("{:?}", r) == format!("{:?}", self) { None } else { Some(r) }
    }
    /// The documented update equations as a scalar recurrence in double precision, one parameter.
    /// Returns the parameter trajectory and whether the run stayed well-conditioned (the centred
    /// variance `v - g_avg^2` is a difference of nearly equal numbers for near-constant gradients).
    pub fn reference(&self, w0: f64, steps: &[(i32, f64)]) -> (Vec<f64>, bool) {
        let mut w = w0;
        let mut out = Vec::new();
        let mut well = true;
        let mut st = [0.0f64; 3];
        for (t, g0) in steps {
            well &= self.step_f64(&mut w, &mut st, *t, *g0);
            out.push(w);
        }
        (out, well)
    }
    /// one step of the documented rule for one scalar parameter `w` with its own state `st`, in double
    /// precision; returns whether the step stayed well-conditioned
    pub fn step_f64(&self, w: &mut f64, st: &mut [f64; 3], t: i32, g0: f64) -> bool {
        let dflt = |x: f32, d: f64| if x == 0.0 { d } else { x as f64 };
        let mut well = true;
        let mut g = g0;
        match self {
            OptSpec::Sgd(lr, d) => {
                let lr = dflt(*lr, 0.1f32 as f64);
                if let Some(d) = d { g += *d as f64 * *w; }
                *w -= lr * g;
            }
            OptSpec::Sgdm(lr, m, da, d) => {
                let (lr, m) = (dflt(*lr, 0.1f32 as f64), dflt(*m, 0.9f32 as f64));
                if let Some(d) = d { g += *d as f64 * *w; }
                if t > 1 { st[0] = m * st[0] + (1.0 - *da as f64) * g; } else { st[0] = g; }
                *w -= lr * st[0];
            }
            OptSpec::Adam(lr, b1, b2, e, d) => {
                let (lr, b1, b2, e) = (dflt(*lr, 0.001f32 as f64), dflt(*b1, 0.9f32 as f64), dflt(*b2, 0.999f32 as f64), dflt(*e, 1e-8f32 as f64));
                if let Some(d) = d { g += *d as f64 * *w; }
                st[0] = b1 * st[0] + (1.0 - b1) * g;
                st[1] = b2 * st[1] + (1.0 - b2) * g * g;
                let mh = st[0] / (1.0 - b1.powi(t));
                let vh = st[1] / (1.0 - b2.powi(t));
                *w -= lr * mh / (vh.sqrt() + e);
            }
            OptSpec::AdamW(lr, b1, b2, e, d) => {
                let (lr, b1, b2, e) = (dflt(*lr, 0.001f32 as f64), dflt(*b1, 0.9f32 as f64), dflt(*b2, 0.999f32 as f64), dflt(*e, 1e-8f32 as f64));
                *w -= lr * *d as f64 * *w;
                st[0] = b1 * st[0] + (1.0 - b1) * g;
                st[1] = b2 * st[1] + (1.0 - b2) * g * g;
                let mh = st[0] / (1.0 - b1.powi(t));
                let vh = st[1] / (1.0 - b2.powi(t));
                *w -= lr * mh / (vh.sqrt() + e);
            }
            OptSpec::Rmsprop(lr, a, e, d, m, c) => {
                let (lr, a, e) = (dflt(*lr, 0.01f32 as f64), dflt(*a, 0.99f32 as f64), dflt(*e, 1e-8f32 as f64));
                if let Some(d) = d { g += *d as f64 * *w; }
                st[0] = a * st[0] + (1.0 - a) * g * g;
                let mut v = st[0];
                if *c {
                    st[1] = a * st[1] + (1.0 - a) * g;
                    v -= st[1] * st[1];
                    if v < 1e-3 * st[0] { well = false; }
                    if v < 0.0 { v = 0.0; }
                }
                if let Some(mu) = m {
                    st[2] = *mu as f64 * st[2] + g / (v.sqrt() + e);
                    *w -= lr * st[2];
                } else {
                    *w -= lr * g / (v.sqrt() + e);
                }
            }
        }
        well
    }
}

fn zeros_like(t: &Tensor) -> Tensor {
    let mut z = t.clone();
    match &mut z.data {
        Data::Single(v) => v.iter_mut().for_each(|x| *x = 0.0),
        Data::Double(v) => v.iter_mut().flatten().for_each(|x| *x = 0.0),
        Data::Triple(v) => v.iter_mut().flatten().flatten().for_each(|x| *x = 0.0),
        Data::Quadruple(v) => v.iter_mut().flatten().flatten().flatten().for_each(|x| *x = 0.0),
        _ => (),
    }
    z
}

pub type Table = Vec<Vec<Vec<Tensor>>>;
pub type Step = (usize, usize, bool, i32, Tensor);

/// run a history through the public API: create -> validate -> update*
pub fn run_history(spec: &OptSpec, params: &Table, steps: &[Step]) -> Option<(Table, Vec<(Tensor, Tensor)>)> {
    try_run(|| {
        let mut o = spec.create();
        o.validate(params.iter().map(|l| l.iter().map(|f| f.iter().map(zeros_like).collect()).collect()).collect());
        let mut params = params.clone();
        let mut trace = Vec::new();
        for (layer, filter, bias, stepnr, grad) in steps {
            let mut g = grad.clone();
            let v = &mut params[*layer][*filter][*bias as usize];
            o.update(*layer, *filter, *bias, *stepnr, v, &mut g);
            trace.push((v.clone(), g));
        }
        (params, trace)
    })
}

/// the same data stored at another rank (vector <-> matrix <-> 3-D), row-major
pub fn rerank(t: &Tensor, rank: usize) -> Tensor {
    let f = flat_any(t);
    let n = f.len();
    match rank {
        1 => Tensor::single(f),
        2 => Tensor::double(vec![f]),
        _ => {
            // 1 x a x b with a | n
            let a = (1..=n).rev().find(|a| n % a == 0 && *a * *a <= n.max(1)).unwrap_or(1);
            let b = n / a;
            Tensor::triple(vec![f.chunks(b).map(|c| c.to_vec()).collect()])
        }
    }
}

fn opt_run(ctx: &mut Ctx, p: &mut Toks) -> String {
    let spec = OptSpec::parse(p);
    let nl = p.nat();
    let mut params: Table = Vec::new();
    for _ in 0..nl {
        let nf = p.nat();
        let mut layer = Vec::new();
        for _ in 0..nf {
            let nb = p.nat();
            layer.push(p.tensors(nb));
        }
        params.push(layer);
    }
    let n = p.nat();
    let steps: Vec<Step> = (0..n).map(|_| (p.nat(), p.nat(), p.boolean(), p.nat() as i32, p.tensor())).collect();
    let res = run_history(&spec, &params, &steps);
    optimizer_checks(ctx, &spec, &params, &steps, &res);
    match res {
        Some((fin, trace)) => {
            let mut out: Vec<String> = Vec::new();
            for (v, g) in &trace {
                out.push(rt(v));
                out.push(rt(g));
            }
            for l in &fin {
                for f in l {
                    for t in f {
                        out.push(rt(t));
                    }
                }
            }
            format!("ok {}", out.join(" "))
        }
        None => "err index".into(),
    }
}

fn optimizer_checks(ctx: &mut Ctx, spec: &OptSpec, params: &Table, steps: &[Step], res: &Option<(Table, Vec<(Tensor, Tensor)>)>) {
    let valid = steps.iter().all(|(l, f, b, t, g)| {
        *t >= 1 && *l < params.len() && *f < params[*l].len() && (*b as usize) < params[*l][*f].len() && g.shape == params[*l][*f][*b as usize].shape
    });
    if !valid || steps.is_empty() {
        return;
    }
    let desc = format!("{} with {} steps over {} slots", spec.token(), steps.len(), params.iter().map(|l| l.iter().map(|f| f.len()).sum::<usize>()).sum::<usize>());
    let (fin, _trace) = match res {
        Some(r) => r,
        None => {
            ctx.oracle(false, "optimizer-panics", "a valid history must not panic", desc, "panic".into(), "parameters".into());
            return;
        }
    };
    let moderate = steps.iter().all(|s| flat_any(&s.4).iter().all(|x| x.abs() < 1e4)) && params.iter().flatten().flatten().all(|t| flat_any(t).iter().all(|x| x.abs() < 1e4));
    // (0) a hyper-parameter left at 0 means the documented default: the run must be bit-identical to the run with that
    // default written out
    if let Some(explicit) = spec.with_explicit_defaults() {
        if let Some((fin2, _)) = run_history(&explicit, params, steps) {
            let same = fin.iter().flatten().flatten().zip(fin2.iter().flatten().flatten()).all(|(a, b)| {
                let (x, y) = (flat_any(a), flat_any(b));
                x.len() == y.len() && x.iter().zip(y.iter()).all(|(p, q)| p.to_bits() == q.to_bits() || (p.is_nan() && q.is_nan()))
            });
            ctx.oracle(same, &format!("{}-update-rule", spec.kind()), "a hyper-parameter left at 0 selects the documented default: the parameters must equal those of the run with the default written out",
                desc.clone(), "differs from the run with explicit defaults".into(), format!("{:?}", explicit));
        }
    }
    // slots touched
    let mut slots: Vec<(usize, usize, bool)> = steps.iter().map(|s| (s.0, s.1, s.2)).collect();
    slots.sort();
    slots.dedup();
    for (l, f, b) in &slots {
        let sub: Vec<Step> = steps.iter().filter(|s| (s.0, s.1, s.2) == (*l, *f, *b)).cloned().collect();
        let start = &params[*l][*f][*b as usize];
        let got = flat_any(&fin[*l][*f][*b as usize]);
        // (1) never NaN / infinite for moderate inputs
        if moderate {
            ctx.oracle(got.iter().all(|x| x.is_finite()), &format!("{}-not-finite", spec.kind()),
                "parameters must stay finite for finite, moderate parameters, gradients and hyper-parameters",
                format!("{} slot ({},{},{})", desc, l, f, b), r1(&got), "finite".into());
        }
        // (2) frame property: the slot's result equals running its sub-history alone
        let mut alone_params = params.clone();
        for (i, layer) in alone_params.iter_mut().enumerate() {
            for (j, filt) in layer.iter_mut().enumerate() {
                for (k, t) in filt.iter_mut().enumerate() {
                    if (i, j, k) != (*l, *f, *b as usize) {
                        *t = zeros_like(t);
                    }
                }
            }
        }
        if let Some((alone, _)) = run_history(spec, &alone_params, &sub) {
            let a = flat_any(&alone[*l][*f][*b as usize]);
            let same = a.len() == got.len() && a.iter().zip(got.iter()).all(|(x, y)| x.to_bits() == y.to_bits() || (x.is_nan() && y.is_nan()));
            ctx.oracle(same, "slot-interference", "state kept for one parameter slot must never influence another slot",
                format!("{} slot ({},{},{})", desc, l, f, b), r1(&got), r1(&a));
        }
        // (3) rank independence: the same numbers stored as vector / matrix / 3-D give the same result
        for rank in 1..=3 {
            let p1: Table = vec![vec![vec![rerank(start, rank)]]];
            let s1: Vec<Step> = sub.iter().map(|s| (0, 0, false, s.3, rerank(&s.4, rank))).collect();
            match run_history(spec, &p1, &s1) {
                Some((r, _)) => {
                    let a = flat_any(&r[0][0][0]);
                    let same = a.len() == got.len() && a.iter().zip(got.iter()).all(|(x, y)| x.to_bits() == y.to_bits() || (x.is_nan() && y.is_nan()));
                    ctx.oracle(same, "rank-dependence", "the result must not depend on whether the parameter is stored as a vector, a matrix or a 3-D kernel",
                        format!("{} slot ({},{},{}) stored at rank {}", desc, l, f, b, rank), r1(&a), r1(&got));
                }
                None => ctx.oracle(false, "rank-dependence", "every rank must be supported", format!("{} rank {}", desc, rank), "panic".into(), r1(&got)),
            }
        }
        // (4) the documented equations, element by element, in double precision
        if moderate {
            let w0 = flat_any(start);
            let gs: Vec<Vec<f32>> = sub.iter().map(|s| flat_any(&s.4)).collect();
            let mut worst: Option<String> = None;
            for i in 0..w0.len() {
                let hist: Vec<(i32, f64)> = sub.iter().zip(gs.iter()).map(|(s, g)| (s.3, g[i] as f64)).collect();
                let (traj, well) = spec.reference(w0[i] as f64, &hist);
                if !well {
                    continue;
                }
                let r = *traj.last().unwrap();
                let scale = 1.0 + r.abs().max(w0[i].abs() as f64);
                if !((got[i] as f64 - r).abs() <= 2e-3 * scale) {
                    worst = Some(format!("element {}: got {:e}, documented rule gives {:e}", i, got[i], r));
                    break;
                }
            }
            ctx.oracle(worst.is_none(), &format!("{}-update-rule", spec.kind()), "parameters must follow the documented update equations element-wise",
                format!("{} slot ({},{},{})", desc, l, f, b), worst.clone().unwrap_or_default(), "documented recurrence".into());
        }
    }
}

/* ------------------------------------------------------------------------------------------------
 * direct explorations
 * --------------------------------------------------------------------------------------------- */

/// C07: sweep f32 bit patterns through the five element-wise activations (quick: every 4099th
/// pattern plus the neighbourhood of the kink; thorough: all 2^32), on the implementation.
pub fn direct_c07(ctx: &mut Ctx) {
    let names = ["relu", "leaky", "sigmoid", "tanh", "linear"];
    let stride: u64 = if ctx.thorough() { 1 } else { 16411 };
    let total: u64 = 1u64 << 32;
    let block: u64 = 1 << 16;
    for name in names.iter() {
        let f = ActFn::create(&act_of(name));
        let bad: Vec<String> = (0..(total / block))
            .into_par_iter()
            .filter_map(|b| {
                let xs: Vec<f32> = ((b * block)..((b + 1) * block))
                    .filter(|i| i % stride == 0)
                    .map(|i| f32::from_bits(i as u32))
                    .filter(|x| x.is_finite())
                    .collect();
                if xs.is_empty() {
                    return None;
                }
                let t = Tensor::single(xs.clone());
                let r = std::panic::catch_unwind(std::panic::AssertUnwindSafe(|| (f.forward(&t), f.backward(&t))));
                match r {
                    Err(_) => Some(format!("{} panics in block {}", name, b)),
                    Ok((a, bw)) => {
                        let (fa, fb) = (flat_any(&a), flat_any(&bw));
                        if let Some(e) = (0..xs.len()).find_map(|i| act_elem_check(name, xs[i], fa[i], fb[i])) {
                            return Some(e);
                        }
                        // the 3-D copy of the same activation must give the same bits on the same values
                        let t3 = Tensor::triple(vec![vec![xs.clone()]]);
                        match std::panic::catch_unwind(std::panic::AssertUnwindSafe(|| (f.forward(&t3), f.backward(&t3)))) {
                            Err(_) => Some(format!("{} (3-D copy) panics in block {}", name, b)),
                            Ok((a3, b3)) => {
                                let (ga, gb) = (flat_any(&a3), flat_any(&b3));
                                if ga.len() != xs.len() || gb.len() != xs.len() {
                                    return Some(format!("{}: the 3-D copy returns {} / {} values for {} inputs", name, ga.len(), gb.len(), xs.len()));
                                }
                                // the 3-D copy is held to the same definition (not to the flat copy's bits: a differently
                                // rounded but correct copy is not a violation)
                                (0..xs.len()).find_map(|i| act_elem_check(name, xs[i], ga[i], gb[i]).map(|e| format!("3-D copy: {}", e)))
                            }
                        }
                    }
                }
            })
            .collect();
        let n = total / stride;
        ctx.direct_evals += n;
        ctx.direct_distinct += n;
        ctx.oracle_checks += n;
        ctx.notes.push(format!("{}: swept {} finite-or-not bit patterns (stride {}) through forward and backward of the flat copy and of the 3-D copy (each against the definition); {} blocks with a failure", name, n, stride, bad.len()));
        for b in bad.iter().take(3) {
            ctx.failures.push(Failure { request: String::new(), key: "activation-function".into(), what: b.clone(), input: format!("{} sweep", name), got: b.clone(), expected: "defined function / derivative, finite, in range".into() });
        }
    }
    if ctx.thorough() {
        ctx.exhaustive.push("all 2^32 single-precision bit patterns x 5 element-wise activations x forward/backward".into());
    }
}

/// C03: long histories on the implementation — the NaN / infinity search the model cannot carry.
pub fn direct_c03(ctx: &mut Ctx) {
    let steps_n = ctx.n(2000, 100_000);
    let mut specs: Vec<OptSpec> = vec![
        OptSpec::Sgd(0.1, None),
        OptSpec::Sgdm(0.1, 0.9, 0.0, Some(0.01)),
        OptSpec::Adam(0.001, 0.9, 0.999, 1e-8, None),
        OptSpec::AdamW(0.001, 0.9, 0.999, 1e-8, 0.01),
    ];
    for centered in [false, true] {
        for mom in [None, Some(0.9f32)] {
            for alpha in [0.5f32, 0.9, 0.99] {
                specs.push(OptSpec::Rmsprop(0.01, alpha, 1e-8, None, mom, centered));
            }
        }
    }
    let mut rng = Rng::new(ctx.seed ^ 0xC03);
    let mut patterns: Vec<(String, Box<dyn Fn(usize) -> f32 + Sync>)> = vec![
        ("constant 0.3".into(), Box::new(|_| 0.3)),
        ("constant 1832.4943".into(), Box::new(|_| 1832.4943)),
        ("sign-flipping".into(), Box::new(|i| if i % 2 == 0 { 0.7 } else { -0.7 })),
        ("tiny".into(), Box::new(|i| 1e-20 * (1 + i % 3) as f32)),
        ("large".into(), Box::new(|i| 5e3 * (1 + i % 2) as f32)),
        ("sparse".into(), Box::new(|i| if i % 17 == 0 { 1.5 } else { 0.0 })),
    ];
    for k in 0..ctx.n(6, 60) {
        let base = rng.uniform(0.01, 100.0);
        let jit = rng.uniform(0.0, 1e-4);
        patterns.push((format!("near-constant {} (+-{:e})", base, jit), Box::new(move |i| base * (1.0 + jit * (((i * 2654435761usize + k) % 1000) as f32 / 1000.0 - 0.5)))));
    }
    let jobs: Vec<(usize, usize)> = (0..specs.len()).flat_map(|s| (0..patterns.len()).map(move |p| (s, p))).collect();
    let bad: Vec<(String, String)> = jobs
        .par_iter()
        .filter_map(|(s, p)| {
            let spec = &specs[*s];
            let r = std::panic::catch_unwind(std::panic::AssertUnwindSafe(|| {
                let mut o = spec.create();
                let w0 = Tensor::single(vec![0.5, -0.25]);
                o.validate(vec![vec![vec![zeros_like(&w0)]]]);
                let mut w = w0;
                for i in 0..steps_n {
                    let g = (patterns[*p].1)(i);
                    let mut gt = Tensor::single(vec![g, -g]);
                    o.update(0, 0, false, (i + 1) as i32, &mut w, &mut gt);
                    if flat_any(&w).iter().any(|x| !x.is_finite()) {
                        return Some(i + 1);
                    }
                }
                None
            }));
            match r {
                Ok(None) => None,
                Ok(Some(step)) => Some((spec.kind().to_string(), format!("{} | gradients {}: parameters non-finite at step {}", spec.token(), patterns[*p].0, step))),
                Err(_) => Some((spec.kind().to_string(), format!("{} | gradients {}: panic", spec.token(), patterns[*p].0))),
            }
        })
        .collect();
    let n = jobs.len() as u64;
    ctx.direct_evals += n;
    ctx.direct_distinct += n;
    ctx.oracle_checks += n;
    ctx.notes.push(format!("NaN/infinity search: {} optimizer settings x {} gradient patterns x {} steps each on the implementation; {} non-finite", specs.len(), patterns.len(), steps_n, bad.len()));
    for (kind, what) in bad.iter().take(6) {
        ctx.failures.push(Failure { request: String::new(), key: format!("{}-not-finite", kind), what: what.clone(), input: what.clone(), got: "NaN or infinite parameters".into(), expected: "finite".into() });
    }
}

pub fn shape_rank(s: &Shape) -> usize {
    match s {
        Shape::Single(_) => 1,
        Shape::Double(..) => 2,
        Shape::Triple(..) => 3,
        _ => 4,
    }
}
