//! `src/network.rs`, `src/feedback.rs` and the layer files: build a real network from a request,
//! run a command on it, render the result as the Lean driver renders the model's.

use crate::exec::Toks;
use crate::ops::scalar::{act_of, obj_of, OptSpec};
use crate::util::*;
use neurons::activation::Activation;
use neurons::feedback::{self, Accumulation};
use neurons::network::{Layer, Network};
use neurons::tensor::{Data, Shape, Tensor};
use std::sync::Arc;

pub fn try_run<T, F: FnOnce() -> T>(f: F) -> Result<T, String> {
    std::panic::catch_unwind(std::panic::AssertUnwindSafe(f)).map_err(|e| {
        let msg = if let Some(s) = e.downcast_ref::<String>() {
            s.clone()
        } else if let Some(s) = e.downcast_ref::<&str>() {
            s.to_string()
        } else {
            "panic".to_string()
        };
        classify_panic(&msg).to_string()
    })
}

#[derive(Clone, Debug)]
pub enum InnerSpec {
    Dense { out: usize, act: String, bias: bool, dropout: Option<f32>, w: Tensor, b: Option<Tensor> },
    Conv { filters: usize, act: String, k: (usize, usize), s: (usize, usize), p: (usize, usize), d: (usize, usize), dropout: Option<f32>, ks: Vec<Tensor> },
    Deconv { filters: usize, act: String, k: (usize, usize), s: (usize, usize), p: (usize, usize), dropout: Option<f32>, ks: Vec<Tensor> },
    Maxpool { k: (usize, usize), s: (usize, usize) },
}

#[derive(Clone, Debug)]
pub enum Build {
    Layer(InnerSpec),
    Feedback { inner: Vec<InnerSpec>, loops: usize, inskips: bool, outskips: bool, acc: String },
    Connect(usize, usize),
    Loopback { outof: usize, into: usize, iterations: usize, scale: String, inskips: bool },
}

#[derive(Clone, Debug)]
pub struct NetSpec {
    pub input: Shape,
    pub builds: Vec<Build>,
    pub skipacc: String,
    pub loopacc: String,
    pub opt: Option<OptSpec>,
    pub obj: String,
    pub clamp: Option<(f32, f32)>,
}

pub fn acc_of(s: &str) -> Accumulation {
    match s {
        "add" => Accumulation::Add,
        "sub" => Accumulation::Subtract,
        "mul" => Accumulation::Multiply,
        "overwrite" => Accumulation::Overwrite,
        "mean" => Accumulation::Mean,
        _ => panic!("accumulation {}", s),
    }
}

fn pair(p: &mut Toks) -> (usize, usize) {
    (p.nat(), p.nat())
}

fn parse_inner(kind: &str, p: &mut Toks) -> InnerSpec {
    match kind {
        "dense" => {
            let out = p.nat();
            let act = p.tok().to_string();
            let bias = p.boolean();
            let dropout = p.opt_f();
            let w = p.tensor();
            let b = if bias { Some(p.tensor()) } else { None };
            InnerSpec::Dense { out, act, bias, dropout, w, b }
        }
        "conv" => {
            let filters = p.nat();
            let act = p.tok().to_string();
            let (k, s, pd, d) = (pair(p), pair(p), pair(p), pair(p));
            let dropout = p.opt_f();
            let ks = p.tensors(filters);
            InnerSpec::Conv { filters, act, k, s, p: pd, d, dropout, ks }
        }
        "deconv" => {
            let filters = p.nat();
            let act = p.tok().to_string();
            let (k, s, pd) = (pair(p), pair(p), pair(p));
            let dropout = p.opt_f();
            let ks = p.tensors(filters);
            InnerSpec::Deconv { filters, act, k, s, p: pd, dropout, ks }
        }
        "maxpool" => InnerSpec::Maxpool { k: pair(p), s: pair(p) },
        t => panic!("inner layer {}", t),
    }
}

impl NetSpec {
    pub fn parse(p: &mut Toks) -> NetSpec {
        let input = p.shape();
        let k = p.nat();
        let mut builds = Vec::new();
        for _ in 0..k {
            let t = p.tok();
            builds.push(match t {
                "dense" | "conv" | "deconv" | "maxpool" => Build::Layer(parse_inner(t, p)),
                "feedback" => {
                    let n = p.nat();
                    let inner = (0..n).map(|_| { let t = p.tok(); parse_inner(t, p) }).collect();
                    Build::Feedback { inner, loops: p.nat(), inskips: p.boolean(), outskips: p.boolean(), acc: p.tok().to_string() }
                }
                "connect" => Build::Connect(p.nat(), p.nat()),
                "loopback" => Build::Loopback { outof: p.nat(), into: p.nat(), iterations: p.nat(), scale: p.tok().to_string(), inskips: p.boolean() },
                t => panic!("builder call {}", t),
            });
        }
        let skipacc = p.tok().to_string();
        let loopacc = p.tok().to_string();
        let opt = if p.tok() == "opt" { Some(OptSpec::parse(p)) } else { None };
        let obj = p.tok().to_string();
        let clamp = if p.peek_none() { None } else { Some((p.flt(), p.flt())) };
        NetSpec { input, builds, skipacc, loopacc, opt, obj, clamp }
    }

    pub fn token(&self) -> String {
        let o = |x: &Option<f32>| x.map_or("none".to_string(), hx);
        let inner = |s: &InnerSpec| -> String {
            match s {
                InnerSpec::Dense { out, act, bias, dropout, w, b } => format!(
                    "dense {} {} {} {} {}{}", out, act, *bias as u8, o(dropout), qt(w),
                    b.as_ref().map_or(String::new(), |b| format!(" {}", qt(b)))),
                InnerSpec::Conv { filters, act, k, s, p, d, dropout, ks } => format!(
                    "conv {} {} {} {} {} {} {} {} {} {} {} {}", filters, act, k.0, k.1, s.0, s.1, p.0, p.1, d.0, d.1, o(dropout),
                    ks.iter().map(qt).collect::<Vec<_>>().join(" ")),
                InnerSpec::Deconv { filters, act, k, s, p, dropout, ks } => format!(
                    "deconv {} {} {} {} {} {} {} {} {} {}", filters, act, k.0, k.1, s.0, s.1, p.0, p.1, o(dropout),
                    ks.iter().map(qt).collect::<Vec<_>>().join(" ")),
                InnerSpec::Maxpool { k, s } => format!("maxpool {} {} {} {}", k.0, k.1, s.0, s.1),
            }
        };
        let mut out = format!("{} {}", shape_tok(&self.input), self.builds.len());
        for b in &self.builds {
            out.push(' ');
            out.push_str(&match b {
                Build::Layer(s) => inner(s),
                Build::Feedback { inner: ins, loops, inskips, outskips, acc } => format!(
                    "feedback {} {} {} {} {} {}", ins.len(), ins.iter().map(|s| inner(s)).collect::<Vec<_>>().join(" "),
                    loops, *inskips as u8, *outskips as u8, acc),
                Build::Connect(a, b) => format!("connect {} {}", a, b),
                Build::Loopback { outof, into, iterations, scale, inskips } => format!("loopback {} {} {} {} {}", outof, into, iterations, scale, *inskips as u8),
            });
        }
        out.push_str(&format!(" {} {} ", self.skipacc, self.loopacc));
        match &self.opt {
            Some(o) => out.push_str(&format!("opt {}", o.token())),
            None => out.push_str("noopt"),
        }
        out.push_str(&format!(" {} ", self.obj));
        match self.clamp {
            Some((lo, hi)) => out.push_str(&format!("{} {}", hx(lo), hx(hi))),
            None => out.push_str("none"),
        }
        out
    }
}

fn set_inner_params(layer: &mut Layer, spec: &InnerSpec) {
    match (layer, spec) {
        (Layer::Dense(l), InnerSpec::Dense { w, b, bias, .. }) => {
            l.verif_set_weights(w.clone());
            l.verif_set_bias(if *bias { b.clone() } else { None });
        }
        (Layer::Convolution(l), InnerSpec::Conv { ks, .. }) => l.verif_set_kernels(ks.clone()),
        (Layer::Deconvolution(l), InnerSpec::Deconv { ks, .. }) => l.verif_set_kernels(ks.clone()),
        (Layer::Maxpool(_), InnerSpec::Maxpool { .. }) => (),
        _ => panic!("layer kind mismatch"),
    }
}

fn scale_of(s: &str) -> neurons::tensor::Scale {
    match s {
        "inv" => Arc::new(|x: f32| 1.0 / x),
        "one" => Arc::new(|_x: f32| 1.0),
        "sqrt" => Arc::new(|x: f32| 1.0 / x.sqrt()),
        _ => panic!("scale {}", s),
    }
}

fn fb_layer(s: &InnerSpec) -> feedback::Layer {
    match s {
        InnerSpec::Dense { out, act, bias, dropout, .. } => feedback::Layer::Dense(*out, act_of(act), *bias, *dropout),
        InnerSpec::Conv { filters, act, k, s, p, d, dropout, .. } => feedback::Layer::Convolution(*filters, act_of(act), *k, *s, *p, *d, *dropout),
        InnerSpec::Deconv { filters, act, k, s, p, dropout, .. } => feedback::Layer::Deconvolution(*filters, act_of(act), *k, *s, *p, *dropout),
        InnerSpec::Maxpool { k, s } => feedback::Layer::Maxpool(*k, *s),
    }
}

/// build the real network through the public builder API, then install the given parameters
pub fn build(spec: &NetSpec) -> Result<Network, String> {
    build_with(spec, false)
}

/// the layers as the public builder creates them (randomly initialised parameters left in place, no connections)
pub fn build_fresh(spec: &NetSpec) -> Result<Network, String> {
    try_run(|| {
        let mut net = Network::new(spec.input.clone());
        for b in &spec.builds {
            match b {
                Build::Layer(s) => match s {
                    InnerSpec::Dense { out, act, bias, dropout, .. } => net.dense(*out, act_of(act), *bias, *dropout),
                    InnerSpec::Conv { filters, act, k, s, p, d, dropout, .. } => net.convolution(*filters, *k, *s, *p, *d, act_of(act), *dropout),
                    InnerSpec::Deconv { filters, act, k, s, p, dropout, .. } => net.deconvolution(*filters, *k, *s, *p, act_of(act), *dropout),
                    InnerSpec::Maxpool { k, s } => net.maxpool(*k, *s),
                },
                Build::Feedback { inner, loops, inskips, outskips, acc } => net.feedback(inner.iter().map(fb_layer).collect(), *loops, *inskips, *outskips, acc_of(acc)),
                _ => (),
            }
        }
        net
    })
}

/// an input of the network's input shape (for the evaluations a "warm" build makes along the way)
pub fn warm_input(shape: &Shape) -> Tensor {
    let val = |i: usize| 0.25 * (i % 5) as f32 - 0.4;
    match shape {
        Shape::Single(n) => Tensor::single((0..*n).map(val).collect()),
        Shape::Triple(c, h, w) => Tensor::triple((0..*c).map(|a| (0..*h).map(|b| (0..*w).map(|d| val(a * 7 + b * 3 + d)).collect()).collect()).collect()),
        _ => Tensor::single(vec![0.0]),
    }
}

/// `warm`: the network is evaluated once before its connections / accumulations / objective / optimizer are configured
/// and once after; both evaluations are discarded (a panic of the half-configured network is ignored)
pub fn build_with(spec: &NetSpec, warm: bool) -> Result<Network, String> {
    build_inner(spec, warm, false).map(|(n, _)| n)
}

/// `tolerant`: a `connect` call the library refuses (it panics) is caught and the SAME network object is built on; the
/// positions (in `spec.builds`) of the refused calls are returned
pub fn build_inner(spec: &NetSpec, warm: bool, tolerant: bool) -> Result<(Network, Vec<usize>), String> {
    try_run(|| {
        let mut refused: Vec<usize> = Vec::new();
        let mut net = Network::new(spec.input.clone());
        let mut warmed = !warm;
        // the accumulations are configured either before the first connection is made or after the last one (the order of
        // the configuration calls must not matter); which of the two is a fixed function of the request
        let early = spec.builds.len() % 2 == 1;
        let mut configured = false;
        for (bi, b) in spec.builds.iter().enumerate() {
            if !warmed && matches!(b, Build::Connect(..) | Build::Loopback { .. }) {
                let x = warm_input(&spec.input);
                let _ = std::panic::catch_unwind(std::panic::AssertUnwindSafe(|| net.predict(&x)));
                warmed = true;
            }
            if early && !configured && matches!(b, Build::Connect(..) | Build::Loopback { .. }) {
                net.set_accumulation(acc_of(&spec.skipacc), acc_of(&spec.loopacc));
                configured = true;
            }
            match b {
                Build::Layer(s) => {
                    match s {
                        InnerSpec::Dense { out, act, bias, dropout, .. } => net.dense(*out, act_of(act), *bias, *dropout),
                        InnerSpec::Conv { filters, act, k, s, p, d, dropout, .. } => net.convolution(*filters, *k, *s, *p, *d, act_of(act), *dropout),
                        InnerSpec::Deconv { filters, act, k, s, p, dropout, .. } => net.deconvolution(*filters, *k, *s, *p, act_of(act), *dropout),
                        InnerSpec::Maxpool { k, s } => net.maxpool(*k, *s),
                    }
                    set_inner_params(net.layers.last_mut().unwrap(), s);
                }
                Build::Feedback { inner, loops, inskips, outskips, acc } => {
                    net.feedback(inner.iter().map(fb_layer).collect(), *loops, *inskips, *outskips, acc_of(acc));
                    if let Some(Layer::Feedback(block)) = net.layers.last_mut() {
                        let len = inner.len();
                        for (i, l) in block.layers.iter_mut().enumerate() {
                            set_inner_params(l, &inner[i % len]);
                        }
                    }
                }
                Build::Connect(a, b) => {
                    if tolerant {
                        if std::panic::catch_unwind(std::panic::AssertUnwindSafe(|| net.connect(*a, *b))).is_err() { refused.push(bi); }
                    } else {
                        net.connect(*a, *b)
                    }
                }
                Build::Loopback { outof, into, iterations, scale, inskips } => net.loopback(*outof, *into, *iterations, scale_of(scale), *inskips),
            }
        }
        if !warmed && !net.layers.is_empty() {
            let x = warm_input(&spec.input);
            let _ = std::panic::catch_unwind(std::panic::AssertUnwindSafe(|| net.predict(&x)));
        }
        if !configured {
            net.set_accumulation(acc_of(&spec.skipacc), acc_of(&spec.loopacc));
        }
        net.set_objective(obj_of(&spec.obj), spec.clamp);
        if let Some(o) = &spec.opt {
            net.set_optimizer(o.create());
        }
        if warm && !net.layers.is_empty() {
            let x = warm_input(&spec.input);
            let _ = std::panic::catch_unwind(std::panic::AssertUnwindSafe(|| net.predict(&x)));
        }
        (net, refused)
    })
}

/* ------------------------------------------------------------------------------------------------
 * rendering
 * --------------------------------------------------------------------------------------------- */

fn r_layer_params(l: &Layer) -> String {
    match l {
        Layer::Dense(d) => format!("dense {} {}", rt(d.verif_weights()), rot(d.verif_bias())),
        Layer::Convolution(d) => format!("conv {}", d.verif_kernels().iter().map(rt).collect::<Vec<_>>().join(" ")),
        Layer::Deconvolution(d) => format!("deconv {}", d.verif_kernels().iter().map(rt).collect::<Vec<_>>().join(" ")),
        Layer::Maxpool(_) => "maxpool".to_string(),
        Layer::Feedback(f) => format!("feedback {}", f.layers.iter().map(r_layer_params).collect::<Vec<_>>().join(" ")),
    }
}

pub fn r_net_params(n: &Network) -> String {
    n.layers.iter().map(r_layer_params).collect::<Vec<_>>().join(" ")
}

fn r_layer_shapes(l: &Layer) -> String {
    let (i, o) = neurons::verif::layer_shapes(l);
    match l {
        Layer::Dense(_) => format!("dense {} {}", shape_tok(&i), shape_tok(&o)),
        Layer::Convolution(d) => format!("conv {} {} {}", shape_tok(&i), shape_tok(&o), d.verif_flatten() as u8),
        Layer::Deconvolution(d) => format!("deconv {} {} {}", shape_tok(&i), shape_tok(&o), d.verif_flatten() as u8),
        Layer::Maxpool(d) => format!("maxpool {} {} {}", shape_tok(&i), shape_tok(&o), d.verif_flatten() as u8),
        Layer::Feedback(f) => format!("feedback {} {} {} {}", shape_tok(&i), shape_tok(&o), f.verif_flatten() as u8, f.layers.len()),
    }
}

pub fn flags_of(n: &Network) -> Vec<bool> {
    let mut v = Vec::new();
    for l in &n.layers {
        match l {
            Layer::Dense(d) => v.push(d.verif_training()),
            Layer::Convolution(d) => v.push(d.verif_training()),
            Layer::Deconvolution(d) => v.push(d.verif_training()),
            Layer::Maxpool(_) => (),
            Layer::Feedback(f) => {
                for il in &f.layers {
                    match il {
                        Layer::Dense(d) => v.push(d.verif_training()),
                        Layer::Convolution(d) => v.push(d.verif_training()),
                        Layer::Deconvolution(d) => v.push(d.verif_training()),
                        _ => (),
                    }
                }
            }
        }
    }
    v
}

pub fn set_all_training(n: &mut Network, t: bool) {
    for l in n.layers.iter_mut() {
        match l {
            Layer::Dense(d) => d.verif_set_training(t),
            Layer::Convolution(d) => d.verif_set_training(t),
            Layer::Deconvolution(d) => d.verif_set_training(t),
            Layer::Maxpool(_) => (),
            // (every repetition of a block, each inner layer set directly: not through the block's own switch)
            Layer::Feedback(f) => for il in f.layers.iter_mut() {
                match il {
                    Layer::Dense(d) => d.verif_set_training(t),
                    Layer::Convolution(d) => d.verif_set_training(t),
                    Layer::Deconvolution(d) => d.verif_set_training(t),
                    _ => (),
                }
            },
        }
    }
}

fn r_flags(n: &Network) -> String {
    flags_of(n).iter().map(|b| (*b as u8).to_string()).collect::<Vec<_>>().join(" ")
}

fn r_wgrad(t: &Tensor) -> String {
    match &t.data {
        Data::Nested(ts) => format!("block {}", ts.iter().map(rt).collect::<Vec<_>>().join(" ")),
        _ => rt(t),
    }
}

fn r_bgrad(t: &Option<Tensor>) -> String {
    match t {
        Some(Tensor { data: Data::NestedOptional(ts), .. }) => format!("block {}", ts.iter().map(rot).collect::<Vec<_>>().join(" ")),
        other => rot(other),
    }
}

pub fn parameters_of(n: &Network) -> String {
    let s = format!("{}", n);
    s.lines()
        .filter_map(|l| l.trim().strip_prefix("parameters: "))
        .last()
        .map(|x| x.trim_end_matches(')').trim().to_string())
        .unwrap_or_else(|| "err".into())
}

pub fn samples(p: &mut Toks, k: usize) -> (Vec<Tensor>, Vec<Tensor>) {
    let mut xs = Vec::new();
    let mut ts = Vec::new();
    for _ in 0..k {
        xs.push(p.tensor());
        ts.push(p.tensor());
    }
    (xs, ts)
}

/// the same call made a second time on the same network object gives the same answer (bit for bit, panics included):
/// nothing a call leaves behind in the network, the thread or the process may enter the next one
fn repeated(ctx: &mut Ctx, spec: &NetSpec, what: &str, first: Option<String>, second: Option<String>) {
    let same = first == second;
    ctx.oracle(same, "repeated-call-differs", "a call repeated on the same network with the same arguments must return the same result",
        format!("{} twice on {}", what, clip(&spec.token(), 800)), clip(&second.unwrap_or_else(|| "panic".into()), 300), clip(&first.unwrap_or_else(|| "panic".into()), 300));
}

pub fn exec(ctx: &mut Ctx, op: &str, p: &mut Toks) -> String {
    if op != "net" {
        return format!("bad unknown op {}", op);
    }
    let spec = NetSpec::parse(p);
    let mut cmd = p.tok().to_string();
    let warm = cmd == "warm";
    if warm {
        cmd = p.tok().to_string();
    }
    let built = build_with(&spec, warm);
    crate::ops::props::net_oracles_build(ctx, &spec, &built);
    let mut net = match built {
        Ok(n) => n,
        Err(c) => {
            // consume nothing further; the model answers `err` as well
            return format!("err {}", c);
        }
    };
    if matches!(cmd.as_str(), "learn" | "predict") {
        // the reported count is checked on every network that is trained or evaluated under C10, not only when asked for
        crate::ops::props::net_oracles_parameters(ctx, &spec, &net);
    }
    let res: Result<String, String> = match cmd.as_str() {
        "shapes" => {
            let r = try_run(|| {
                format!("{} params {} connect {} loops {}", net.layers.iter().map(r_layer_shapes).collect::<Vec<_>>().join(" "),
                    parameters_of(&net), net.connect.len(), net.loopbacks.len())
            });
            crate::ops::props::net_oracles_parameters(ctx, &spec, &net);
            r
        }
        "connectmap" => {
            let mut v: Vec<(usize, usize)> = net.connect.iter().map(|(a, b)| (*a, *b)).collect();
            v.sort();
            Ok(format!("[{}]", v.iter().map(|(a, b)| format!("({}, {})", a, b)).collect::<Vec<_>>().join(", ")))
        }
        "predict" => {
            let x = p.tensor();
            let r = try_run(|| net.predict(&x));
            crate::ops::props::net_oracles_predict(ctx, &spec, &net, &x, &r);
            let again = try_run(|| net.predict(&x));
            repeated(ctx, &spec, "predict", r.as_ref().map(|y| rt(y)).ok(), again.as_ref().map(|y| rt(y)).ok());
            r.map(|y| rt(&y))
        }
        "forward" => {
            let x = p.tensor();
            try_run(|| {
                let (pre, act, _, _) = net.forward(&x);
                format!("{} | {}", pre.iter().map(rt).collect::<Vec<_>>().join(" "), act.iter().map(rt).collect::<Vec<_>>().join(" "))
            })
        }
        "backward" => {
            let x = p.tensor();
            let t = p.tensor();
            if ctx.prop == "C01" && spec.token().contains("3f000000") {
                // a stand-alone validate comes first on networks with a dropout rate (0.5): the gradients asked for afterwards
                // are still those of the layers' operators (the evaluation leaves the network as it was)
                let _ = try_run(|| net.validate(&vec![&x], &vec![&t], 0.1));
            }
            let r = try_run(|| {
                let (pre, act, maxp, fbs) = net.forward(&x);
                let (loss, grad) = net.verif_objective(act.last().unwrap(), &t);
                let (wg, bg) = net.verif_backward(grad, &pre, &act, &maxp, fbs);
                (loss, wg, bg)
            });
            crate::ops::props::net_oracles_backward(ctx, &spec, &net, &x, &t, &r);
            let again = try_run(|| {
                let (pre, act, maxp, fbs) = net.forward(&x);
                let (loss, grad) = net.verif_objective(act.last().unwrap(), &t);
                let (wg, bg) = net.verif_backward(grad, &pre, &act, &maxp, fbs);
                (loss, wg, bg)
            });
            let show = |v: &(f32, Vec<Tensor>, Vec<Option<Tensor>>)| format!("{} {} | {}", rf(v.0), v.1.iter().map(r_wgrad).collect::<Vec<_>>().join(" "), v.2.iter().map(r_bgrad).collect::<Vec<_>>().join(" "));
            repeated(ctx, &spec, "forward + backward", r.as_ref().map(show).ok(), again.as_ref().map(show).ok());
            r.map(|(loss, wg, bg)| {
                format!("{} {} | {}", rf(loss), wg.iter().map(r_wgrad).collect::<Vec<_>>().join(" "), bg.iter().map(r_bgrad).collect::<Vec<_>>().join(" "))
            })
        }
        "flags" => Ok(r_flags(&net)),
        "predict_batch" => {
            let k = p.nat();
            let xs = p.tensors(k);
            let r = try_run(|| net.predict_batch(&xs.iter().collect()));
            crate::ops::props::net_oracles_predict_batch(ctx, &spec, &net, &xs, &r);
            let again = try_run(|| net.predict_batch(&xs.iter().collect()));
            let show = |ys: &Vec<Tensor>| ys.iter().map(rt).collect::<Vec<_>>().join(" ");
            repeated(ctx, &spec, "predict_batch", r.as_ref().map(show).ok(), again.as_ref().map(show).ok());
            r.map(|ys| ys.iter().map(rt).collect::<Vec<_>>().join(" "))
        }
        "validate" => {
            let k = p.nat();
            let (xs, ts) = samples(p, k);
            let tol = p.flt();
            let train = p.boolean();
            if train {
                set_all_training(&mut net, true);
            }
            let xr: Vec<&Tensor> = xs.iter().collect();
            let tr: Vec<&Tensor> = ts.iter().collect();
            let r = try_run(|| net.validate(&xr, &tr, tol));
            let first = r.as_ref().map(|(l, a)| format!("{} {} flags {}", rf(*l), rf(*a), r_flags(&net))).ok();
            let again = try_run(|| net.validate(&xr, &tr, tol));
            let second = again.as_ref().map(|(l, a)| format!("{} {} flags {}", rf(*l), rf(*a), r_flags(&net))).ok();
            repeated(ctx, &spec, "validate", first, second);
            crate::ops::props::net_oracles_validate(ctx, &spec, &mut net, &xs, &ts, tol, train, &r);
            r.map(|(l, a)| format!("{} {} flags {}", rf(l), rf(a), r_flags(&net)))
        }
        "relearn" => {
            // `learn` called twice on one network (the second run starts from the parameters and the optimizer state
            // the first left behind); the second run is reported and checked
            let k = p.nat();
            let (xs, ts) = samples(p, k);
            let has_val = p.boolean();
            let val = if has_val {
                let kv = p.nat();
                let (vx, vt) = samples(p, kv);
                Some((vx, vt, p.nat() as i32))
            } else {
                None
            };
            let batch = p.nat();
            let epochs = p.nat() as i32;
            let ns = p.nat();
            let script = p.v1(ns);
            let print = p.opt_trailing_nat();
            let job = LearnJob { xs, ts, val, batch, epochs, script, print: if print == 0 { None } else { Some(print as i32) }, phases: 2 };
            let r = run_learn(&mut net, &job).and_then(|_| run_learn(&mut net, &job));
            crate::ops::props::net_oracles_learn(ctx, &spec, &net, &job, &r);
            r.map(|(tl, vl, va)| {
                format!("{} {} {} {} | {} | {} | {} flags {}", tl.len(), vl.len(), va.len(), r1(&tl), r1(&vl), r1(&va), r_net_params(&net), r_flags(&net))
            })
        }
        "learn" | "learnon" => {
            // `learnon`: every training flag is already set when `learn` is entered (a run that was interrupted, or a
            // caller that set them); `learn` must leave the network in inference mode all the same
            if cmd == "learnon" {
                set_all_training(&mut net, true);
            }
            let k = p.nat();
            let (xs, ts) = samples(p, k);
            let has_val = p.boolean();
            let val = if has_val {
                let kv = p.nat();
                let (vx, vt) = samples(p, kv);
                Some((vx, vt, p.nat() as i32))
            } else {
                None
            };
            let batch = p.nat();
            let epochs = p.nat() as i32;
            let ns = p.nat();
            let script = p.v1(ns);
            let print = p.opt_trailing_nat();
            let job = LearnJob { xs, ts, val, batch, epochs, script, print: if print == 0 { None } else { Some(print as i32) }, phases: 1 };
            let r = run_learn(&mut net, &job);
            crate::ops::props::net_oracles_learn(ctx, &spec, &net, &job, &r);
            if r.is_ok() {
                // what the training call leaves behind: the reported parameter count is still that of the parameters held
                // (C10 / C08), and the network still computes the composition of its layers' operators with the announced
                // shapes (C02 / C08 / C11: checked by the forward oracles on a prediction made afterwards)
                crate::ops::props::net_oracles_parameters(ctx, &spec, &net);
                if ["C02", "C08", "C11"].contains(&ctx.prop.as_str()) && !job.xs.is_empty() {
                    let x = job.xs[0].clone();
                    let pr = try_run(|| net.predict(&x));
                    let trained = crate::ops::props::spec_with_params_of(&spec, &net);
                    crate::ops::props::net_oracles_predict(ctx, &trained, &net, &x, &pr);
                }
            }
            if r.is_ok() && ctx.prop == "C12" {
                // after training has returned, validate is still the faithful aggregation of predict on the same network
                let (vx, vt) = match &job.val { Some((a, b, _)) => (a.clone(), b.clone()), None => (job.xs.clone(), job.ts.clone()) };
                let xr: Vec<&Tensor> = vx.iter().collect();
                let tr: Vec<&Tensor> = vt.iter().collect();
                let r2 = try_run(|| net.validate(&xr, &tr, 0.1));
                crate::ops::props::net_oracles_validate(ctx, &spec, &mut net, &vx, &vt, 0.1, false, &r2);
            }
            r.map(|(tl, vl, va)| {
                format!("{} {} {} {} | {} | {} | {} flags {}", tl.len(), vl.len(), va.len(), r1(&tl), r1(&vl), r1(&va), r_net_params(&net), r_flags(&net))
            })
        }
        c => Ok(format!("bad unknown net command {}", c)),
    };
    match res {
        Ok(s) if s.starts_with("bad ") => s,
        Ok(s) => format!("ok {}", s),
        Err(c) => format!("err {}", c),
    }
}

pub struct LearnJob {
    pub xs: Vec<Tensor>,
    pub ts: Vec<Tensor>,
    pub val: Option<(Vec<Tensor>, Vec<Tensor>, i32)>,
    pub batch: usize,
    pub epochs: i32,
    pub script: Vec<f32>,
    /// `learn`'s progress-printing interval; must not influence anything `learn` returns or leaves behind
    pub print: Option<i32>,
    /// how many times in a row `learn` is called with this job (the histories of the last call are reported)
    pub phases: usize,
}

pub fn run_learn(net: &mut Network, job: &LearnJob) -> Result<(Vec<f32>, Vec<f32>, Vec<f32>), String> {
    let xr: Vec<&Tensor> = job.xs.iter().collect();
    let tr: Vec<&Tensor> = job.ts.iter().collect();
    let (vx, vt): (Vec<&Tensor>, Vec<&Tensor>) = match &job.val {
        Some((a, b, _)) => (a.iter().collect(), b.iter().collect()),
        None => (vec![], vec![]),
    };
    neurons::verif::set_val_loss_script(if job.script.is_empty() { None } else { Some(job.script.clone()) });
    let r = try_run(|| {
        let val = job.val.as_ref().map(|(_, _, thr)| (&vx, &vt, *thr));
        net.learn(&xr, &tr, val, job.batch, job.epochs, job.print)
    });
    neurons::verif::set_val_loss_script(None);
    r
}

#[allow(dead_code)]
pub fn unused(_: Activation, _: Shape) {}
