//! Implementation-side executors of the protocol ops, grouped by source file of the library, plus
//! the direct (non-protocol) explorations some properties need.

pub mod net;
pub mod props;
pub mod random;
pub mod reference;
pub mod scalar;
pub mod tensor;

use crate::exec::Toks;
use crate::util::*;

/// the decimal literals the library uses, as the Rust compiler rounds them
pub fn lit(p: &mut Toks) -> String {
    let m = p.nat();
    let neg = p.boolean();
    let e = p.nat();
    let s = format!("{}e{}{}", m, if neg { "-" } else { "" }, e);
    let x: f32 = s.parse().unwrap();
    format!("ok {}", rf(x))
}

/// explorations that do not go through the line protocol (exhaustive sweeps, thread-count sweeps, …)
pub fn direct(ctx: &mut Ctx) {
    match ctx.prop.as_str() {
        "C18" => random::direct(ctx),
        "C05" => props::direct_c05(ctx),
        "C07" => scalar::direct_c07(ctx),
        "C03" => {
            scalar::direct_c03(ctx);
            props::direct_c03_slots(ctx);
        }
        _ => (),
    }
}
