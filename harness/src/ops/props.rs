//! Property-level oracles evaluated on the implementation while the network ops run.
//! Each function only acts for the properties it belongs to (`ctx.prop`).

use crate::ops::net::{self, Build, InnerSpec, LearnJob, NetSpec};
use crate::ops::reference::{Margin, RLayer, RNet, Sh};
use crate::ops::tensor::flat_any;
use crate::util::*;
use neurons::network::{Layer, Network};
use neurons::tensor::{Data, Shape, Tensor};

fn is(ctx: &Ctx, props: &[&str]) -> bool {
    props.contains(&ctx.prop.as_str())
}

fn f64s(t: &Tensor) -> Vec<f64> {
    flat_any(t).iter().map(|x| *x as f64).collect()
}

fn close_vec(a: &[f32], r: &[f64], rel: f64, abs: f64) -> Option<String> {
    if a.len() != r.len() {
        return Some(format!("length {} vs {}", a.len(), r.len()));
    }
    let scale = r.iter().fold(0.0f64, |m, x| m.max(x.abs()));
    for i in 0..a.len() {
        let d = (a[i] as f64 - r[i]).abs();
        if !(d <= rel * scale + abs) {
            return Some(format!("element {}: {:e} vs {:e} (scale {:e})", i, a[i], r[i], scale));
        }
    }
    None
}

/* ---------------------------------------------------------------------------------------------
 * C08 / C16: construction
 * ------------------------------------------------------------------------------------------ */

pub fn net_oracles_build(ctx: &mut Ctx, spec: &NetSpec, built: &Result<Network, String>) {
    // C16: a connection that is REFUSED leaves no trace — the network it was asked of goes on exactly like the network that
    // was never asked (same recorded connections, same predictions)
    if is(ctx, &["C16"]) && built.is_err() && spec.builds.iter().filter(|b| matches!(b, Build::Connect(..))).count() >= 2 {
        if let Ok((tol_net, refused)) = net::build_inner(spec, false, true) {
            if !refused.is_empty() {
                let mut spec2 = spec.clone();
                spec2.builds = spec.builds.iter().enumerate().filter(|(i, _)| !refused.contains(i)).map(|(_, b)| b.clone()).collect();
                // (the position-parity rule for when the accumulations are configured is kept by configuring explicitly)
                if let Ok(plain) = net::build(&spec2) {
                    let mut a: Vec<(usize, usize)> = tol_net.connect.iter().map(|(k, v)| (*k, *v)).collect();
                    let mut b: Vec<(usize, usize)> = plain.connect.iter().map(|(k, v)| (*k, *v)).collect();
                    a.sort(); b.sort();
                    let x = net::warm_input(&spec.input);
                    let (pa, pb) = (net::try_run(|| tol_net.predict(&x)), net::try_run(|| plain.predict(&x)));
                    let same_pred = match (&pa, &pb) { (Ok(p), Ok(q)) => bits_eq(p, q), (Err(_), Err(_)) => true, _ => false };
                    ctx.oracle(a == b && same_pred, "refused-connection-left-a-trace",
                        "a connect call that is rejected must leave the network as it was: the earlier connections are kept and nothing of the rejected one remains",
                        format!("{} (refused calls at positions {:?})", clip(&spec.token(), 900), refused), format!("connections {:?}", a), format!("connections {:?}", b));
                }
            }
        }
    }
    if !is(ctx, &["C08", "C16", "C17", "C11"]) {
        return;
    }
    let reference = RNet::build(spec);
    let desc = clip(&spec.token(), 1500);
    match (&reference, built) {
        (Ok(r), Ok(n)) => {
            // announced shapes equal the standard formulas
            for (i, (l, rl)) in n.layers.iter().zip(r.layers.iter()).enumerate() {
                let (ins, outs) = neurons::verif::layer_shapes(l);
                let ok = Sh::of(&ins).map_or(false, |s| s == rl.in_sh()) && Sh::of(&outs).map_or(false, |s| s == rl.out_sh());
                ctx.oracle(ok, "announced-shape", "announced layer shapes must follow the standard size formulas",
                    format!("layer {} of {}", i, desc), format!("{} -> {}", shape_tok(&ins), shape_tok(&outs)), format!("{:?} -> {:?}", rl.in_sh(), rl.out_sh()));
            }
            // … and the parameters the builder itself creates (before anything is installed) have the configured extents:
            // filters x channels x kernel height x kernel width, outputs x inputs — recorded shape and nested data alike
            if is(ctx, &["C08"]) {
                if let Ok(fresh) = net::build_fresh(spec) {
                    let extents3 = |t: &Tensor| -> Option<(usize, usize, usize)> {
                        if let Data::Triple(v) = &t.data {
                            let (c, h, w) = (v.len(), v.first().map_or(0, |m| m.len()), v.first().and_then(|m| m.first()).map_or(0, |r| r.len()));
                            let uniform = v.iter().all(|m| m.len() == h && m.iter().all(|r| r.len() == w));
                            if uniform && t.shape == Shape::Triple(c, h, w) { Some((c, h, w)) } else { None }
                        } else { None }
                    };
                    let mut check = |l: &Layer, s: &InnerSpec, where_: String, ctx: &mut Ctx| {
                        let (ins, _) = neurons::verif::layer_shapes(l);
                        let cin = match ins { Shape::Triple(c, _, _) => c, _ => 0 };
                        let (got, want): (String, String) = match (l, s) {
                            (Layer::Convolution(c), InnerSpec::Conv { filters, k, .. }) =>
                                (format!("{} x {:?}", c.verif_kernels().len(), c.verif_kernels().iter().map(|t| extents3(t)).collect::<Vec<_>>()), format!("{} x {:?}", filters, vec![Some((cin, k.0, k.1)); *filters])),
                            (Layer::Deconvolution(c), InnerSpec::Deconv { filters, k, .. }) =>
                                (format!("{} x {:?}", c.verif_kernels().len(), c.verif_kernels().iter().map(|t| extents3(t)).collect::<Vec<_>>()), format!("{} x {:?}", filters, vec![Some((cin, k.0, k.1)); *filters])),
                            (Layer::Dense(d), InnerSpec::Dense { out, .. }) => {
                                let n_in = match ins { Shape::Single(n) => n, _ => 0 };
                                let w = d.verif_weights();
                                let ext = if let Data::Double(m) = &w.data { (m.len(), m.first().map_or(0, |r| r.len()), m.iter().all(|r| r.len() == m[0].len())) } else { (0, 0, false) };
                                (format!("{:?} recorded {}", ext, shape_tok(&w.shape)), format!("{:?} recorded {}", (*out, n_in, true), shape_tok(&Shape::Double(*out, n_in))))
                            }
                            _ => (String::new(), String::new()),
                        };
                        ctx.oracle(got == want, "created-parameter-shape", "the parameters a layer is created with must have the configured extents (recorded shape and data)",
                            where_, got, want);
                    };
                    for (i, (l, b)) in fresh.layers.iter().zip(spec.builds.iter().filter(|b| matches!(b, Build::Layer(_) | Build::Feedback { .. }))).enumerate() {
                        match (l, b) {
                            (Layer::Feedback(f), Build::Feedback { inner, .. }) => {
                                for (j, il) in f.layers.iter().enumerate() { check(il, &inner[j % inner.len()], format!("block layer {} of layer {} of {}", j, i, desc), ctx); }
                            }
                            (l, Build::Layer(sp)) => check(l, sp, format!("layer {} of {}", i, desc), ctx),
                            _ => (),
                        }
                    }
                }
            }
            if is(ctx, &["C16"]) {
                let mut got: Vec<(usize, usize)> = n.connect.iter().map(|(a, b)| (*a, *b)).collect();
                got.sort();
                let want: Vec<(usize, usize)> = r.connect.iter().map(|(a, b)| (*a, *b)).collect();
                ctx.oracle(got == want, "connect-discards", "adding a connection must never silently discard an earlier one",
                    desc.clone(), format!("{:?}", got), format!("{:?}", want));
            }
        }
        (Err(why), Ok(_)) => {
            // the property states rejection for non-square flat sizes and (C16) for connections that would
            // discard an earlier one; other degenerate configurations (zero-sized outputs, …) are not claimed
            if why.contains("perfect square") {
                ctx.oracle(false, "accepts-non-square", "a flat length that is not a perfect square must be rejected when the spatial layer is added", desc, "accepted".into(), format!("rejected: {}", why));
            } else if ctx.prop == "C16" && (why.contains("target already") || why.contains("invalid skip indices")) {
                ctx.oracle(false, "connect-accepts-invalid", "a connection that would discard an earlier one (or connects a layer to itself) must be rejected", desc, "accepted".into(), format!("rejected: {}", why));
            } else {
                ctx.label("invalid-configuration/no-claim");
            }
        }
        (Ok(_), Err(c)) => {
            let has_connect = spec.builds.iter().any(|b| matches!(b, Build::Connect(..)));
            let key = if has_connect { "connect-rejects-valid" } else { "rejects-valid-configuration" };
            ctx.oracle(false, key, "a valid configuration must be accepted", desc, format!("rejected ({})", c), "accepted".into());
        }
        (Err(_), Err(_)) => ctx.oracle(true, "rejects", "", desc, String::new(), String::new()),
    }
}

/* ---------------------------------------------------------------------------------------------
 * C02 / C11 / C16 / C17 / C08: prediction against the mathematical definition
 * ------------------------------------------------------------------------------------------ */

/// C11 in single precision: a network that is just one feedback block is unrolled by hand — every repetition is
/// the prediction of a plain network holding the block's layer sequence once (the library's own layers, which C02
/// decides), the combinations are computed here element by element in f32 (`+`, `-`, `*`, the mean, overwrite).
/// NaN must meet NaN and an infinity the same infinity; finite values agree exactly where one combination of two
/// operands decides them, and within rounding of the largest operand otherwise (the mean, several operands).  This sees what the double-precision definition cannot: overflow, NaN and infinities.
fn block_unroll_oracle(ctx: &mut Ctx, spec: &NetSpec, x: &Tensor, y: &Tensor) {
    let (inner, loops, inskips, outskips, acc) = match spec.builds.as_slice() {
        [Build::Feedback { inner, loops, inskips, outskips, acc }] => (inner, *loops, *inskips, *outskips, acc.as_str()),
        _ => return,
    };
    if loops == 0 || inner.iter().any(|l| matches!(l, InnerSpec::Maxpool { .. })) && false { return; }
    let twin_spec = NetSpec { input: spec.input.clone(), builds: inner.iter().map(|l| Build::Layer(l.clone())).collect(),
        skipacc: "add".into(), loopacc: "mean".into(), opt: None, obj: "mse".into(), clamp: None };
    let twin = match net::build(&twin_spec) { Ok(t) => t, Err(_) => return };
    let n = flat_any(x).len();
    let shape_like = x.clone();
    let rep = |v: &Vec<f32>| -> Option<Vec<f32>> {
        let mut t = shape_like.clone();
        let mut it = v.iter();
        match &mut t.data {
            Data::Single(a) => for e in a.iter_mut() { *e = *it.next()?; },
            Data::Triple(a) => for m in a.iter_mut() { for r in m.iter_mut() { for e in r.iter_mut() { *e = *it.next()?; } } },
            _ => return None,
        }
        let out = net::try_run(|| twin.predict(&t)).ok()?;
        let f = flat_any(&out);
        if f.len() == n { Some(f) } else { None }
    };
    let combine = |a: &Vec<f32>, bs: &[Vec<f32>]| -> Vec<f32> {
        match acc {
            "add" => { let mut r = a.clone(); for b in bs { for (x, y) in r.iter_mut().zip(b.iter()) { *x += *y; } } r }
            "sub" => { let mut r = a.clone(); for b in bs { for (x, y) in r.iter_mut().zip(b.iter()) { *x -= *y; } } r }
            "mul" => { let mut r = a.clone(); for b in bs { for (x, y) in r.iter_mut().zip(b.iter()) { *x *= *y; } } r }
            "overwrite" => bs.last().cloned().unwrap_or_else(|| a.clone()),
            _ => { let k = (bs.len() + 1) as f32; (0..a.len()).map(|i| { let mut s = a[i]; for b in bs { s += b[i]; } s / k }).collect() }
        }
    };
    let x0 = flat_any(x);
    let mut ys: Vec<Vec<f32>> = Vec::new();
    let mut cur = match rep(&x0) { Some(v) => v, None => return };
    ys.push(cur.clone());
    for _ in 1..loops {
        let inp = if inskips { combine(&cur, std::slice::from_ref(&x0)) } else { cur.clone() };
        cur = match rep(&inp) { Some(v) => v, None => return };
        ys.push(cur.clone());
    }
    let expect = if outskips && loops >= 2 { combine(&cur, &ys[..loops - 1]) } else { cur };
    let got = flat_any(y);
    // every value a small integer multiple of one power of two: all sums are exact in single precision and a mean is one
    // correctly rounded division, whatever the association
    let grid = {
        let vals: Vec<f32> = ys.iter().chain(std::iter::once(&x0)).flat_map(|v| v.iter().cloned()).collect();
        let m = vals.iter().filter(|v| **v != 0.0 && v.is_finite()).fold(f32::INFINITY, |m, v| m.min(v.abs()));
        m.is_finite() && vals.iter().all(|v| v.is_finite() && { let q = (*v as f64) / (m as f64); q == q.round() && q.abs() <= 2048.0 })
            && (m as f64).log2() == (m as f64).log2().round()
    };
    let exact = acc == "overwrite" || (acc != "mean" && loops <= 2) || (grid && acc != "mul");
    let scale = ys.iter().chain(std::iter::once(&x0)).flat_map(|v| v.iter()).filter(|v| v.is_finite()).fold(1e-3f64, |m, v| m.max(v.abs() as f64));
    let same = got.len() == expect.len() && got.iter().zip(expect.iter()).all(|(a, b)| {
        if a.is_nan() || b.is_nan() { return a.is_nan() && b.is_nan(); }
        if a.is_infinite() || b.is_infinite() { return a == b; }
        // sums with cancellation: rounding (and a different, equally valid association of several operands) is relative
        // to the largest operand, not to the result; a single combination (two operands) is exact
        if exact { a == b } else { ((*a as f64) - (*b as f64)).abs() <= 1e-5 * scale }
    });
    ctx.oracle(same, "block-not-unrolled-sequence",
        "a feedback block with L loops must output the L-fold repeated application of its layer sequence, later repetitions receiving the previous output combined with the block input, the output combined with the earlier repetition outputs — element by element in single precision",
        format!("{} predict {}", clip(&spec.token(), 1200), qt(x)), r1(&got), r1(&expect));
}

/// every layer is bias-free with a positively homogeneous activation, and no accumulation multiplies
fn homogeneous(spec: &NetSpec) -> bool {
    let act_ok = |a: &str| a == "linear" || a == "relu" || a == "leaky";
    let inner_ok = |l: &InnerSpec| match l {
        InnerSpec::Dense { act, bias, dropout, .. } => act_ok(act) && !*bias && dropout.is_none(),
        InnerSpec::Conv { act, dropout, .. } => act_ok(act) && dropout.is_none(),
        InnerSpec::Deconv { act, dropout, .. } => act_ok(act) && dropout.is_none(),
        InnerSpec::Maxpool { .. } => true,
    };
    spec.clamp.is_none() && spec.builds.iter().all(|b| match b {
        Build::Layer(l) => inner_ok(l),
        Build::Feedback { inner, acc, .. } => acc != "mul" && inner.iter().all(|l| inner_ok(l)),
        Build::Connect(..) => spec.skipacc != "mul",
        Build::Loopback { .. } => spec.loopacc != "mul",
    })
}

/// oracles that do not depend on the size of the numbers: (1) a bias-free network of linear / (leaky) ReLU layers whose
/// accumulations do not multiply is positively homogeneous, and scaling by a power of two commutes with every rounding
/// (away from overflow and the subnormal range), so predict(2^k x) = 2^k predict(x) bit for bit; (2) the mean of two
/// numbers lies between them (two diagonal linear layers, the second the target of a mean connection from the first)
fn scale_oracles(ctx: &mut Ctx, spec: &NetSpec, net: &Network, x: &Tensor, y: &Tensor, desc: &str) {
    let xf = flat_any(x);
    let yf = flat_any(y);
    let key = match ctx.prop.as_str() { "C11" => "feedback-forward", "C16" => "skip-forward", _ => "loop-forward" };
    let maxabs = xf.iter().fold(0f32, |a, b| a.max(b.abs()));
    if homogeneous(spec) && xf.iter().all(|v| v.is_finite()) && maxabs > 1e-25 && maxabs < 1e-3 {
        let k = (2.0f32).powi(20);
        let mut xs = x.clone();
        scale_tensor(&mut xs, None, k);
        if let Ok(y2) = net::try_run(|| net.predict(&xs)) {
            let y2f = flat_any(&y2);
            let in_range = yf.iter().chain(y2f.iter()).all(|v| v.is_finite() && (*v == 0.0 || v.abs() > 1e-30));
            if in_range && yf.len() == y2f.len() {
                let ok = yf.iter().zip(y2f.iter()).all(|(a, b)| (b / k).to_bits() == a.to_bits() || (*a == 0.0 && *b == 0.0));
                ctx.oracle(ok, key, "a bias-free network of linear / ReLU layers is positively homogeneous: the prediction for 2^20·x is 2^20 times the prediction for x, bit for bit",
                    desc.to_string(), format!("{:?}", yf), format!("{:?} / 2^20", y2f));
            }
        }
    }
    // the diagonal pattern under overwrite: the target processes the source's input, whatever its ordinary input was
    // (also when that overflowed): with an identity second layer the prediction IS the network input, bit for bit
    if spec.skipacc == "overwrite" && spec.builds.len() == 3 {
        if let (Build::Layer(InnerSpec::Dense { act: a0, bias: false, .. }), Build::Layer(InnerSpec::Dense { act: a1, bias: false, w: w1, .. }), Build::Connect(0, 1)) =
            (&spec.builds[0], &spec.builds[1], &spec.builds[2]) {
            if let Data::Double(m1) = &w1.data {
                let n = xf.len();
                let ident = m1.len() == n && m1.iter().enumerate().all(|(i, r)| r.len() == n && r.iter().enumerate().all(|(j, v)| if i == j { *v == 1.0 } else { *v == 0.0 }));
                if a0 == "linear" && a1 == "linear" && ident && yf.len() == n && xf.iter().all(|v| v.is_finite()) {
                    let ok = yf.iter().zip(xf.iter()).all(|(a, b)| a.to_bits() == b.to_bits() || (*a == 0.0 && *b == 0.0));
                    ctx.oracle(ok, key, "with overwrite accumulation the target processes the input that was fed to the source (here: the network input, through an identity layer)",
                        desc.to_string(), format!("{:?}", yf), format!("{:?}", xf));
                }
            }
        }
    }
    // the diagonal pattern
    if spec.skipacc == "mean" && spec.builds.len() == 3 {
        if let (Build::Layer(InnerSpec::Dense { act: a0, bias: false, w: w0, .. }), Build::Layer(InnerSpec::Dense { act: a1, bias: false, w: w1, .. }), Build::Connect(0, 1)) =
            (&spec.builds[0], &spec.builds[1], &spec.builds[2]) {
            let m0 = match &w0.data { Data::Double(m) => m.clone(), _ => return };
            let m1 = match &w1.data { Data::Double(m) => m.clone(), _ => return };
            let n = xf.len();
            let diag = |m: &Vec<Vec<f32>>| m.len() == n && m.iter().enumerate().all(|(i, r)| r.len() == n && r.iter().enumerate().all(|(j, v)| i == j || *v == 0.0));
            let ident = m1.iter().enumerate().all(|(i, r)| r.get(i) == Some(&1.0));
            if a0 == "linear" && a1 == "linear" && diag(&m0) && diag(&m1) && ident && yf.len() == n && xf.iter().all(|v| v.is_finite() && v.abs() < 1.0e38) {
                let mut ok = true;
                for i in 0..n {
                    let a = m0[i][i] * xf[i];
                    let b = xf[i];
                    if !a.is_finite() || a.abs() > 1.0e38 { continue; }
                    let (lo, hi) = if a <= b { (a, b) } else { (b, a) };
                    if !(yf[i] >= lo && yf[i] <= hi) { ok = false; }
                }
                ctx.oracle(ok, key, "the mean of a layer's ordinary input and its source's input lies between the two, component by component",
                    desc.to_string(), format!("{:?}", yf), "between the operands".into());
            }
        }
    }
}

pub fn net_oracles_predict(ctx: &mut Ctx, spec: &NetSpec, net: &Network, x: &Tensor, res: &Result<Tensor, String>) {
    if !is(ctx, &["C02", "C11", "C16", "C17", "C08"]) {
        return;
    }
    if ctx.prop == "C11" {
        if let Ok(y) = res { block_unroll_oracle(ctx, spec, x, y); }
    }
    let r = match RNet::build(spec) {
        Ok(r) => r,
        Err(_) => return,
    };
    if flat_any(x).len() != r.input.count() {
        return;
    }
    let desc = format!("{} predict {}", clip(&spec.token(), 1500), qt(x));
    let y = match res {
        Ok(y) => y,
        Err(c) => {
            ctx.oracle(false, "predict-panics", "a valid network must produce a prediction", desc, format!("panic ({})", c), "a tensor".into());
            return;
        }
    };
    if is(ctx, &["C16", "C17", "C11"]) {
        scale_oracles(ctx, spec, net, x, y, &desc);
    }
    // an element-wise activation alone (one dense layer, weight matrix diagonal, no bias): the output equals the activation
    // of the pre-activation to single-precision RELATIVE accuracy at every scale (a tiny pre-activation is not lost)
    if is(ctx, &["C02", "C07"]) {
        if let [Build::Layer(InnerSpec::Dense { act, bias: false, dropout: None, w, .. })] = spec.builds.as_slice() {
            if let Data::Double(m) = &w.data {
                let xf = flat_any(x);
                let yf = flat_any(y);
                let n = xf.len();
                let diag = m.len() == n && m.iter().enumerate().all(|(i, r)| r.len() == n && r.iter().enumerate().all(|(j, v)| i == j || *v == 0.0));
                let f: Option<fn(f64) -> f64> = match act.as_str() {
                    "tanh" => Some(|z: f64| z.tanh()),
                    "sigmoid" => Some(|z: f64| 1.0 / (1.0 + (-z).exp())),
                    "relu" => Some(|z: f64| if z > 0.0 { z } else { 0.0 }),
                    "leaky" => Some(|z: f64| if z > 0.0 { z } else { 0.01f32 as f64 * z }),
                    "linear" => Some(|z: f64| z),
                    _ => None,
                };
                if let (true, Some(f)) = (diag && yf.len() == n && xf.iter().all(|v| v.is_finite()), f) {
                    let mut worst: Option<String> = None;
                    for i in 0..n {
                        let z = (m[i][i] as f64) * (xf[i] as f64);
                        if !z.is_finite() || z.abs() > 1e30 { continue; }
                        let e = f(z);
                        let tol = 4e-6 * e.abs() + 1e-44;
                        if !((yf[i] as f64 - e).abs() <= tol) {
                            worst = Some(format!("component {}: got {:e}, {}({:e}) = {:e}", i, yf[i], act, z, e));
                            break;
                        }
                    }
                    ctx.oracle(worst.is_none(), "forward-operator", "a dense layer outputs activation(W x + b): the activation of every pre-activation, tiny ones included, to single-precision relative accuracy",
                        desc.clone(), worst.clone().unwrap_or_default(), "activation evaluated in double precision".into());
                }
            }
        }
    }
    let mut m = Margin(f64::INFINITY);
    let (_, out) = r.forward(&f64s(x), &mut m);
    // ties / kinks change which branch is taken; only compare away from them
    if m.0 < 1e-4 {
        return;
    }
    // outside single precision's range the double-precision evaluation of the definition says nothing about the
    // single-precision result (an intermediate overflows there and not here): left to the bit-exact correspondence
    if flat_any(y).iter().any(|v| !v.is_finite()) || out.iter().any(|v| !v.is_finite() || v.abs() > 1e37) {
        // … except where every operand is moderate (inputs and parameters within ±200, so nothing can leave single
        // precision's range on the way): there a finite definition with a non-finite result is a fault of the layer
        let moderate = flat_any(x).iter().all(|v| v.abs() <= 200.0) && net_params(net).iter().all(|p| p.iter().all(|v| v.abs() <= 200.0));
        if moderate && out.iter().all(|v| v.is_finite() && v.abs() <= 1e30) && flat_any(y).iter().any(|v| !v.is_finite()) {
            let key = match ctx.prop.as_str() { "C11" => "feedback-forward", "C16" => "skip-forward", "C17" => "loop-forward", _ => "forward-operator" };
            ctx.oracle(false, key, "with moderate inputs and parameters the layers' operators are finite: the output must be the (finite) composition of the layer operators",
                desc, clip(&r1(&flat_any(y)), 300), clip(&format!("{:?}", out), 300));
        }
        return;
    }
    let bad = close_vec(&flat_any(y), &out, 2e-4, 1e-5);
    let key = match ctx.prop.as_str() {
        "C11" => "feedback-forward",
        "C16" => "skip-forward",
        "C17" => "loop-forward",
        _ => "forward-operator",
    };
    ctx.oracle(bad.is_none(), key, "the prediction must equal the composition of the layers' defining operators (with the configured skip / loop / block semantics)",
        desc.clone(), bad.clone().unwrap_or_default(), "definition evaluated in double precision".into());
    // produced shape equals announced shape; flattened when a dense layer follows / at the end of the data flow
    if is(ctx, &["C08", "C02"]) {
        let (pre, act, _, _) = match net::try_run(|| net.forward(x)) {
            Ok(v) => v,
            Err(_) => return,
        };
        for (i, l) in net.layers.iter().enumerate() {
            let (_, outs) = neurons::verif::layer_shapes(l);
            let ok = pre[i].shape == outs || matches!(l, Layer::Feedback(_));
            ctx.oracle(ok, "produced-shape", "the shape a layer produces must equal the shape announced when it was added",
                format!("layer {} of {}", i, desc), shape_tok(&pre[i].shape), shape_tok(&outs));
            let next_dense = matches!(net.layers.get(i + 1), Some(Layer::Dense(_)));
            if next_dense {
                ctx.oracle(matches!(act[i + 1].shape, Shape::Single(_)), "flatten-before-dense", "a spatial output feeding a dense layer must be flattened",
                    format!("layer {} of {}", i, desc), shape_tok(&act[i + 1].shape), "S n".into());
            } else if i + 1 < net.layers.len() && matches!(outs, Shape::Triple(..)) && !matches!(l, Layer::Feedback(_)) {
                // … and a spatial output that feeds another spatial layer is handed on as it was announced (not flattened)
                ctx.oracle(act[i + 1].shape == outs, "produced-shape", "a spatial output that does not feed a dense layer must be handed on in the announced shape",
                    format!("layer {} of {} (output handed on)", i, desc), shape_tok(&act[i + 1].shape), shape_tok(&outs));
            }
        }
    }
}

/* ---------------------------------------------------------------------------------------------
 * C01 / C16 / C08: gradients against central differences of the definition
 * ------------------------------------------------------------------------------------------ */

pub fn net_oracles_backward(ctx: &mut Ctx, spec: &NetSpec, net: &Network, x: &Tensor, t: &Tensor,
    res: &Result<(f32, Vec<Tensor>, Vec<Option<Tensor>>), String>) {
    if !is(ctx, &["C01", "C16", "C08"]) {
        return;
    }
    let mut r = match RNet::build(spec) {
        Ok(r) => r,
        Err(_) => return,
    };
    if flat_any(x).len() != r.input.count() {
        return;
    }
    let desc = format!("{} backward {} {}", clip(&spec.token(), 1500), qt(x), qt(t));
    let (_, wgs, bgs) = match res {
        Ok(v) => v,
        Err(c) => {
            // backward through a max-pool *inside* a feedback block is explicitly unsupported by the library
            // (`panic!("Unsupported layer type.")` in Feedback::backward): not a valid configuration for a gradient
            let pool_in_block = spec.builds.iter().any(|b| match b {
                Build::Feedback { inner, .. } => inner.iter().any(|l| matches!(l, InnerSpec::Maxpool { .. })),
                _ => false,
            });
            if !pool_in_block {
                ctx.oracle(false, "backward-panics", "gradients must be computable for every valid configuration", desc, format!("panic ({})", c), "gradients".into());
            }
            return;
        }
    };
    let nl = net.layers.len();
    // C08: gradient tensors have exactly the shape of the parameters they belong to
    if is(ctx, &["C08", "C01"]) {
        for (li, l) in net.layers.iter().enumerate() {
            let wg = &wgs[nl - 1 - li];
            let ok = match l {
                Layer::Dense(d) => wg.shape == d.verif_weights().shape && match (&bgs[nl - 1 - li], d.verif_bias()) {
                    (Some(b), Some(p)) => b.shape == p.shape,
                    (None, None) => true,
                    _ => false,
                },
                Layer::Convolution(d) => kernel_shape_ok(wg, d.verif_kernels()),
                Layer::Deconvolution(d) => kernel_shape_ok(wg, d.verif_kernels()),
                _ => true,
            };
            ctx.oracle(ok, "gradient-shape", "gradient tensors must have exactly the shape of the parameters they belong to",
                format!("layer {} of {}", li, desc), shape_tok(&wg.shape), "parameter shape".into());
        }
    }
    if !is(ctx, &["C01", "C16"]) {
        return;
    }
    let x64 = f64s(x);
    let t64 = f64s(t);
    let mut m = Margin(f64::INFINITY);
    let (_, out) = r.forward(&x64, &mut m);
    if m.0 < 2e-3 || out.iter().any(|v| !v.is_finite()) {
        ctx.label("derivative-oracle/skipped-near-kink");
        return;
    }
    // objectives with kinks / domain edges: stay away from them
    if (spec.obj == "ae" || spec.obj == "mae" || spec.obj == "rmse") && out.iter().zip(t64.iter()).any(|(a, b)| (a - b).abs() < 2e-3) {
        return;
    }
    if matches!(spec.obj.as_str(), "ce" | "bce" | "kl") && out.iter().any(|p| *p < 1e-3 || *p > 1.0 - 1e-3) {
        return;
    }
    if spec.clamp.is_some() {
        return;
    }
    let h = 1e-6;
    let mut worst: Option<String> = None;
    let mut checked = 0;
    // What is differentiated.  For a soft-max output under cross-entropy: the reported loss itself (the property
    // states those gradients are the ones of the cross-entropy of the soft-max outputs).  Otherwise: the objective's
    // own per-element gradient g (C06: the derivative of the loss for AE, MSE, BCE, KL; the documented sign / scaled
    // form for MAE, RMSE) is held fixed and back-propagation must deliver d/dθ Σ_i g_i · out_i(θ) — i.e. the
    // vector-Jacobian product, which is the derivative of the loss whenever g is.
    let softmax_ce = spec.obj == "ce";
    let upstream: Vec<f64> = {
        let outs: Vec<f32> = out.iter().map(|v| *v as f32).collect();
        let p = match Sh::of(&t.shape) { Some(Sh::Vol(_, hh, ww)) => Tensor::triple(outs.chunks(hh * ww).map(|m| m.chunks(ww).map(|r| r.to_vec()).collect()).collect()), _ => Tensor::single(outs) };
        let (_, g) = net.verif_objective(&p, t);
        f64s(&g)
    };
    let value = |r: &RNet, o: &[f64]| -> f64 {
        if softmax_ce { r.objective(o, &t64) } else { o.iter().zip(upstream.iter()).map(|(a, b)| a * b).sum() }
    };
    'outer: for li in 0..nl {
        let wg = &wgs[nl - 1 - li];
        let bg = &bgs[nl - 1 - li];
        // (copy, inner, impl gradient values) groups
        let mut groups: Vec<(usize, usize, Vec<f32>)> = Vec::new();
        match (&r.layers[li], &wg.data) {
            (RLayer::Feedback { copies, .. }, Data::Nested(ws)) => {
                let len = copies[0].len();
                let total = copies.len() * len;
                let bs: Vec<Option<Tensor>> = match bg {
                    Some(Tensor { data: Data::NestedOptional(b), .. }) => b.clone(),
                    _ => vec![None; total],
                };
                for pos in 0..total {
                    // gradients are stored last unrolled layer first
                    let g = &ws[total - 1 - pos];
                    let mut v = flat_any(g);
                    if let Some(Some(b)) = bs.get(total - 1 - pos) {
                        v.extend(flat_any(b));
                    }
                    groups.push((pos / len, pos % len, v));
                }
            }
            (RLayer::Maxpool { .. }, _) => (),
            (_, _) => {
                let mut v = flat_any(wg);
                if let Some(b) = bg {
                    v.extend(flat_any(b));
                }
                groups.push((0, 0, v));
            }
        }
        for (copy, inner, g) in groups {
            let n = g.len();
            let stride = (n / 6).max(1);
            for idx in (0..n).step_by(stride) {
                let base = match r.param_mut(li, copy, inner, idx) {
                    Some(p) => *p,
                    None => continue,
                };
                *r.param_mut(li, copy, inner, idx).unwrap() = base + h;
                let mut m1 = Margin(f64::INFINITY);
                let lp = value(&r, &r.forward(&x64, &mut m1).1);
                *r.param_mut(li, copy, inner, idx).unwrap() = base - h;
                let lm = value(&r, &r.forward(&x64, &mut m1).1);
                *r.param_mut(li, copy, inner, idx).unwrap() = base;
                let num = (lp - lm) / (2.0 * h);
                checked += 1;
                let scale = g.iter().fold(0.0f32, |a, b| a.max(b.abs())) as f64;
                let d = (g[idx] as f64 - num).abs();
                if !(d <= 2e-3 * scale.max(num.abs()) + 2e-4) {
                    worst = Some(format!("layer {} (copy {}, inner {}) parameter {}: library gradient {:e}, derivative of the objective {:e}", li, copy, inner, idx, g[idx], num));
                    break 'outer;
                }
            }
        }
    }
    let key = if ctx.prop == "C16" { "skip-gradient" } else if spec.builds.iter().any(|b| matches!(b, Build::Layer(InnerSpec::Dense { act, .. }) if act == "softmax")) { "softmax-gradient" }
        else if spec.builds.iter().any(|b| matches!(b, Build::Layer(InnerSpec::Conv { .. }))) { "conv-gradient" } else { "gradient" };
    ctx.oracle(worst.is_none() && checked > 0 || checked == 0, key, "every parameter gradient must equal the partial derivative of the sample's objective",
        desc, worst.unwrap_or_default(), "central differences of the definition in double precision".into());
}

fn kernel_shape_ok(wg: &Tensor, ks: &Vec<Tensor>) -> bool {
    match (&wg.shape, ks.first().map(|k| &k.shape)) {
        (Shape::Quadruple(f, c, h, w), Some(Shape::Triple(kc, kh, kw))) => *f == ks.len() && c == kc && h == kh && w == kw,
        _ => false,
    }
}

/* ---------------------------------------------------------------------------------------------
 * C12: batched prediction and validation are aggregations of predict
 * ------------------------------------------------------------------------------------------ */

fn bits_eq(a: &Tensor, b: &Tensor) -> bool {
    let (x, y) = (flat_any(a), flat_any(b));
    a.shape == b.shape && x.len() == y.len() && x.iter().zip(y.iter()).all(|(p, q)| p.to_bits() == q.to_bits() || (p.is_nan() && q.is_nan()))
}

pub fn net_oracles_predict_batch(ctx: &mut Ctx, spec: &NetSpec, net: &Network, xs: &Vec<Tensor>, res: &Result<Vec<Tensor>, String>) {
    if !is(ctx, &["C12", "C05"]) {
        return;
    }
    let desc = format!("{} predict_batch of {}", clip(&spec.token(), 800), xs.len());
    match res {
        Err(c) => ctx.oracle(false, "predict-batch-panics", "predict_batch must work for any number of inputs", desc, format!("panic ({})", c), "predictions".into()),
        Ok(ys) => {
            let single: Vec<Tensor> = xs.iter().map(|x| net.predict(x)).collect();
            let ok = ys.len() == single.len() && ys.iter().zip(single.iter()).all(|(a, b)| bits_eq(a, b));
            ctx.oracle(ok, "predict-batch-order", "predict_batch must return exactly predict of each input, in input order", desc.clone(),
                format!("{} outputs", ys.len()), format!("{} outputs equal to predict", single.len()));
            // predict equals the final activation of forward
            if let Some(x) = xs.first() {
                let (_, act, _, _) = net.forward(x);
                ctx.oracle(bits_eq(act.last().unwrap(), &single[0]), "predict-last-activation", "predict must equal the final activation of forward", desc, rt(&single[0]), rt(act.last().unwrap()));
            }
        }
    }
}

/// the same network specification holding the parameters the (trained) network holds now
pub fn spec_with_params_of(spec: &NetSpec, net: &Network) -> NetSpec {
    fn refresh(s: &mut InnerSpec, l: &Layer) {
        match (s, l) {
            (InnerSpec::Dense { w, b, .. }, Layer::Dense(d)) => { *w = d.verif_weights().clone(); if b.is_some() { *b = d.verif_bias().clone(); } }
            (InnerSpec::Conv { ks, .. }, Layer::Convolution(d)) => { *ks = d.verif_kernels().clone(); }
            (InnerSpec::Deconv { ks, .. }, Layer::Deconvolution(d)) => { *ks = d.verif_kernels().clone(); }
            _ => {}
        }
    }
    let mut out = spec.clone();
    let mut li = 0;
    for b in out.builds.iter_mut() {
        match b {
            Build::Layer(s) => { if let Some(l) = net.layers.get(li) { refresh(s, l); } li += 1; }
            Build::Feedback { inner, .. } => {
                if let Some(Layer::Feedback(f)) = net.layers.get(li) { for (i, s) in inner.iter_mut().enumerate() { if let Some(l) = f.layers.get(i) { refresh(s, l); } } }
                li += 1;
            }
            _ => {}
        }
    }
    out
}

/// the same network specification with no dropout rate configured anywhere
pub fn strip_dropout(spec: &NetSpec) -> NetSpec {
    let strip = |l: &InnerSpec| -> InnerSpec {
        let mut l = l.clone();
        match &mut l {
            InnerSpec::Dense { dropout, .. } | InnerSpec::Conv { dropout, .. } | InnerSpec::Deconv { dropout, .. } => { *dropout = None; }
            InnerSpec::Maxpool { .. } => {}
        }
        l
    };
    let mut spec2 = spec.clone();
    for b in spec2.builds.iter_mut() {
        match b {
            Build::Layer(l) => { *l = strip(l); }
            Build::Feedback { inner, .. } => { for l in inner.iter_mut() { *l = strip(l); } }
            _ => {}
        }
    }
    spec2
}

pub fn net_oracles_validate(ctx: &mut Ctx, spec: &NetSpec, net: &mut Network, xs: &Vec<Tensor>, ts: &Vec<Tensor>, tol: f32, train: bool, res: &Result<(f32, f32), String>) {
    if is(ctx, &["C02", "C01", "C11", "C17", "C16", "C12", "C09", "C08"]) && !train && res.is_ok() && !xs.is_empty() {
        // a stand-alone validate leaves the network what it was: predict is still the composition of the layers' operators
        // (no dropout mask), i.e. the prediction of the same network built without dropout
        let desc = format!("{} predict after validate on {} samples", clip(&spec.token(), 800), xs.len());
        // (the twin holds the parameters the network holds NOW: the network may have been trained before this call)
        if let Ok(Ok(twin)) = net::try_run(|| net::build(&spec_with_params_of(&strip_dropout(spec), net))) {
            let a = net::try_run(|| net.predict(&xs[0]));
            let b = net::try_run(|| twin.predict(&xs[0]));
            if let (Ok(a), Ok(b)) = (&a, &b) {
                ctx.oracle(bits_eq(a, b), "predict-after-validate-not-composition", "after validate returns, predict must still be the composition of the layers' operators (inference mode)",
                    desc, rt(a), rt(b));
            }
        }
    }
    if !is(ctx, &["C12", "C09", "C05"]) {
        return;
    }
    let desc = format!("{} validate {} samples tol {:e} training-flags {}", clip(&spec.token(), 800), xs.len(), tol, train);
    let (loss, acc) = match res {
        Ok(v) => *v,
        Err(c) => {
            if !xs.is_empty() {
                ctx.oracle(false, "validate-panics", "validate must work on any data set", desc, format!("panic ({})", c), "(loss, accuracy)".into());
            }
            return;
        }
    };
    if xs.is_empty() {
        return;
    }
    if is(ctx, &["C09"]) {
        // after the call the flags are what they were before
        let flags = net::flags_of(net);
        ctx.oracle(flags.iter().all(|f| *f == train), "validate-flags-not-restored", "validate must restore the dropout flags it found", desc.clone(),
            format!("{:?}", flags), format!("all {}", train));
        // the dropout-free twin: same network with every flag off
        let mut twin_flags_off = |n: &mut Network| net::set_all_training(n, false);
        twin_flags_off(net);
        let xr: Vec<&Tensor> = xs.iter().collect();
        let tr: Vec<&Tensor> = ts.iter().collect();
        let clean = net::try_run(|| net.validate(&xr, &tr, tol));
        net::set_all_training(net, train);
        if let Ok((l2, a2)) = clean {
            ctx.oracle(l2.to_bits() == loss.to_bits() && a2.to_bits() == acc.to_bits(), "dropout-leaks-into-validation",
                "validation metrics must be those of the dropout-free network, whatever the training flags are when it is called",
                desc.clone(), format!("loss {:e} acc {:e}", loss, acc), format!("loss {:e} acc {:e}", l2, a2));
        }
        // the same network built without any dropout rate at all (same weights): identical metrics
        let strip = |l: &InnerSpec| -> InnerSpec {
            let mut l = l.clone();
            match &mut l {
                InnerSpec::Dense { dropout, .. } | InnerSpec::Conv { dropout, .. } | InnerSpec::Deconv { dropout, .. } => { *dropout = None; }
                InnerSpec::Maxpool { .. } => {}
            }
            l
        };
        let mut spec2 = spec.clone();
        for b in spec2.builds.iter_mut() {
            match b {
                Build::Layer(l) => { *l = strip(l); }
                Build::Feedback { inner, .. } => { for l in inner.iter_mut() { *l = strip(l); } }
                _ => {}
            }
        }
        if let Ok(Ok(mut twin)) = net::try_run(|| net::build(&spec2)) {
            if let Ok((l3, a3)) = net::try_run(|| twin.validate(&xr, &tr, tol)) {
                ctx.oracle(l3.to_bits() == loss.to_bits() && a3.to_bits() == acc.to_bits(), "dropout-leaks-into-validation",
                    "validation metrics must be those of the same network built without dropout",
                    desc.clone(), format!("loss {:e} acc {:e}", loss, acc), format!("loss {:e} acc {:e}", l3, a3));
            }
        }
    }
    if is(ctx, &["C12"]) {
        // recompute from predict and the objective, summed in input order; `predict` means the network's
        // prediction (inference mode), so the flags are switched off for the recomputation and put back
        if train {
            net::set_all_training(net, false);
        }
        let mut ls = Vec::new();
        let mut accs = Vec::new();
        let softmax = matches!(spec.builds.iter().rev().find_map(|b| match b { Build::Layer(InnerSpec::Dense { act, .. }) => Some(act.clone()), Build::Layer(_) | Build::Feedback { .. } => Some(String::new()), _ => None }), Some(a) if a == "softmax");
        for (x, t) in xs.iter().zip(ts.iter()) {
            let p = net.predict(x);
            let (l, _) = net.verif_objective(&p, t);
            ls.push(l);
            let (pf, tf) = (flat_any(&p), flat_any(t));
            let a = if softmax {
                if argmax_last(&pf) == argmax_last(&tf) { 1.0 } else { 0.0 }
            } else if tf.len() == 1 {
                if (pf[0] - tf[0]).abs() < tol { 1.0 } else { 0.0 }
            } else {
                tf.iter().zip(pf.iter()).map(|(t, p)| if (t - p).abs() < tol { 1.0f32 } else { 0.0 }).sum::<f32>() / tf.len() as f32
            };
            accs.push(a);
        }
        if train {
            net::set_all_training(net, true);
        }
        let el = ls.iter().sum::<f32>() / ls.len() as f32;
        let ea = accs.iter().sum::<f32>() / accs.len() as f32;
        // the mean of n single-precision numbers: any summation order (or a wider accumulator) is a correct mean,
        // so compare with the exact mean within n·u·mean|lᵢ| (+ the final division)
        let n = ls.len() as f64;
        let exact_l: f64 = ls.iter().map(|v| *v as f64).sum::<f64>() / n;
        let mag_l: f64 = ls.iter().map(|v| (*v as f64).abs()).sum::<f64>() / n;
        let ok_l = if !loss.is_finite() || !exact_l.is_finite() { el.to_bits() == loss.to_bits() || (el.is_nan() && loss.is_nan()) || (!loss.is_finite() && !exact_l.is_finite()) }
            else { ((loss as f64) - exact_l).abs() <= (n + 2.0) * 5.97e-8 * mag_l + 1e-44 };
        ctx.oracle(ok_l, "validate-loss-mean", "validate must return the arithmetic mean of the per-sample objective losses of predict",
            desc.clone(), format!("{:e}", loss), format!("{:e}", el));
        let exact_a: f64 = accs.iter().map(|v| *v as f64).sum::<f64>() / n;
        ctx.oracle(((acc as f64) - exact_a).abs() <= (n + 2.0) * 5.97e-8 * exact_a.abs() + 1e-44, "validate-accuracy-mean", "validate must return the mean per-sample accuracy (arg-max agreement for soft-max, tolerance otherwise)",
            desc, format!("{:e}", acc), format!("{:e}", ea));
    }
}

/// C10: the reported parameter count counts every shared parameter once: it must equal the number of scalars
/// actually held by the layers, with one repetition of every feedback block
pub fn net_oracles_parameters(ctx: &mut Ctx, spec: &NetSpec, net: &Network) {
    if !is(ctx, &["C10", "C08"]) {
        return;
    }
    let reported = match net::try_run(|| net::parameters_of(net)) { Ok(r) => r, Err(_) => return };
    let mut blocks = spec.builds.iter().filter_map(|b| match b { Build::Feedback { inner, .. } => Some(inner.len()), _ => None });
    let mut count = 0usize;
    for l in net.layers.iter() {
        match l {
            Layer::Feedback(f) => {
                let len = blocks.next().unwrap_or(f.layers.len());
                for il in f.layers.iter().take(len) {
                    count += layer_params(il).iter().map(|v| v.len()).sum::<usize>();
                }
            }
            other => count += layer_params(other).iter().map(|v| v.len()).sum::<usize>(),
        }
    }
    ctx.oracle(reported == count.to_string(), "parameter-count",
        "the reported parameter count must count every parameter once (one repetition of a feedback block)",
        format!("{} parameters", clip(&spec.token(), 900)), reported, count.to_string());
}

fn argmax_last(v: &[f32]) -> usize {
    let mut best = 0;
    for i in 1..v.len() {
        if !(v[i] < v[best]) {
            best = i;
        }
    }
    best
}

/* ---------------------------------------------------------------------------------------------
 * C04 / C09 / C10 / C13: training
 * ------------------------------------------------------------------------------------------ */

fn layer_params(l: &Layer) -> Vec<Vec<f32>> {
    match l {
        Layer::Dense(d) => {
            let mut v = vec![flat_any(d.verif_weights())];
            if let Some(b) = d.verif_bias() {
                v.push(flat_any(b));
            }
            v
        }
        Layer::Convolution(d) => d.verif_kernels().iter().map(flat_any).collect(),
        Layer::Deconvolution(d) => d.verif_kernels().iter().map(flat_any).collect(),
        Layer::Maxpool(_) => vec![],
        Layer::Feedback(f) => f.layers.iter().flat_map(layer_params).collect(),
    }
}

pub fn net_params(n: &Network) -> Vec<Vec<f32>> {
    n.layers.iter().flat_map(layer_params).collect()
}

fn same_bits(a: &[f32], b: &[f32]) -> bool {
    a.len() == b.len() && a.iter().zip(b.iter()).all(|(x, y)| x.to_bits() == y.to_bits() || (x.is_nan() && y.is_nan()))
}

pub fn net_oracles_learn(ctx: &mut Ctx, spec: &NetSpec, net: &Network, job: &LearnJob, res: &Result<(Vec<f32>, Vec<f32>, Vec<f32>), String>) {
    let desc = format!("{} learn N={} B={} E={} val={} script={:?} print={:?}", clip(&spec.token(), 800), job.xs.len(), job.batch, job.epochs,
        job.val.as_ref().map_or("none".to_string(), |v| format!("{} samples, tolerance {}", v.0.len(), v.2)), job.script, job.print);
    let (tl, vl, va) = match res {
        Ok(v) => v,
        Err(c) => {
            if is(ctx, &["C04", "C13", "C09", "C03"]) && job.batch >= 1 && !job.xs.is_empty() && job.val.as_ref().map_or(true, |v| v.2 >= 1) && c != "nan" {
                ctx.oracle(false, "learn-panics", "training must run on valid arguments", desc, format!("panic ({})", c), "histories".into());
            }
            return;
        }
    };
    // a feedback block with ONE repetition and no internal skips is its layer sequence: training it is training the plain
    // network with those layers in its place (same groups, same steps, same carried optimizer state)
    if is(ctx, &["C04", "C10", "C11", "C03"]) && job.phases <= 1 && job.script.is_empty()
        && spec.builds.iter().any(|b| matches!(b, Build::Feedback { .. }))
        && spec.builds.iter().all(|b| match b { Build::Feedback { loops, inskips, outskips, .. } => *loops == 1 && !*inskips && !*outskips, Build::Layer(_) => true, _ => false }) {
        let mut plain = spec.clone();
        plain.builds = spec.builds.iter().flat_map(|b| match b {
            Build::Feedback { inner, .. } => inner.iter().cloned().map(Build::Layer).collect::<Vec<_>>(),
            other => vec![other.clone()],
        }).collect();
        if let Ok(mut twin) = net::build(&plain) {
            if let Ok((tl2, _, _)) = net::run_learn(&mut twin, job) {
                let flat = |n: &Network| -> Vec<f32> { net_params(n).into_iter().flatten().collect() };
                let close = |a: &[f32], b: &[f32]| a.len() == b.len() && a.iter().zip(b.iter()).all(|(x, y)|
                    (x.is_nan() && y.is_nan()) || x.to_bits() == y.to_bits() || ((*x as f64) - (*y as f64)).abs() <= 2e-5 * (x.abs().max(y.abs()).max(1e-3) as f64));
                ctx.oracle(close(&flat(net), &flat(&twin)) && close(tl, &tl2), "one-repetition-block-not-its-layers",
                    "a block with one repetition and no internal skips must train exactly like the plain network with its layers in the block's place",
                    desc.clone(), format!("losses {:?}, weights {}", tl, clip(&r1(&flat(net)), 300)), format!("losses {:?}, weights {}", tl2, clip(&r1(&flat(&twin)), 300)));
            }
        }
    }
    if is(ctx, &["C13"]) {
        // lengths
        let with_val = job.val.is_some();
        ctx.oracle(vl.len() == if with_val { tl.len() } else { 0 } && va.len() == vl.len() && tl.len() <= job.epochs.max(0) as usize && (tl.len() >= 1 || job.epochs <= 0),
            "history-lengths", "one training-loss entry per epoch run, and exactly as many validation entries when validation data is given (none otherwise)",
            desc.clone(), format!("{} / {} / {}", tl.len(), vl.len(), va.len()), "equal (or 0 without validation)".into());
        // stopping rule, read off the returned validation losses
        let run = tl.len();
        let budget = job.epochs.max(0) as usize;
        match &job.val {
            None => ctx.oracle(run == budget, "stops-without-validation", "without validation data all epochs must run", desc.clone(), run.to_string(), budget.to_string()),
            // (the stopping rule is read off the validation losses: only when there is one per epoch run)
            Some(_) if vl.len() != run => {}
            Some((_, _, thr)) => {
                let t = *thr as usize;
                let cond = |e: usize| -> bool {
                    // more than T epochs have run and the last T recorded losses strictly increase
                    e > t && (1..t).all(|i| vl[e - t + i] > vl[e - t + i - 1])
                };
                let first = (1..=run).find(|e| cond(*e));
                if run < budget {
                    ctx.oracle(cond(run), "stops-early-without-cause", "training may stop early only if the validation loss strictly increased throughout the last `tolerance` recorded epochs and more than `tolerance` epochs have run",
                        desc.clone(), format!("stopped after {} of {} epochs, validation losses {:?}", run, budget, vl), "condition holds at the stop epoch".into());
                }
                ctx.oracle(first.map_or(true, |e| e == run), "continues-past-stop-condition", "training must not continue past the first epoch at which the stop condition holds",
                    desc.clone(), format!("ran {} epochs, condition first held at {:?}, validation losses {:?}", run, first, vl), "stop at the first such epoch".into());
            }
        }
    }
    if is(ctx, &["C09", "C10", "C04", "C13", "C01", "C02", "C11"]) {
        // after training returns every dropout flag is off (gradients and predictions asked for afterwards are those of
        // the layers' defining operators only then)
        let flags = net::flags_of(net);
        if is(ctx, &["C09", "C01", "C02", "C11"]) {
            ctx.oracle(flags.iter().all(|f| !*f), "flags-after-learn", "after training returns the network must predict like one without dropout (all flags off)",
                desc.clone(), format!("{:?}", flags), "all false".into());
        }
    }
    if is(ctx, &["C10", "C11"]) {
        for (li, l) in net.layers.iter().enumerate() {
            if let Layer::Feedback(f) = l {
                let total = f.layers.len();
                // block length = total / loops; find it from the spec
                let len = spec.builds.iter().filter_map(|b| match b { Build::Feedback { inner, .. } => Some(inner.len()), _ => None }).next().unwrap_or(total);
                let mut ok = true;
                for pos in 0..total {
                    let a = layer_params(&f.layers[pos]);
                    let b = layer_params(&f.layers[pos % len]);
                    if a.len() != b.len() || a.iter().zip(b.iter()).any(|(x, y)| !same_bits(x, y)) {
                        ok = false;
                    }
                }
                ctx.oracle(ok, "weights-untied", "all unrolled repetitions of a feedback block must hold identical parameters after any number of training steps",
                    format!("layer {} of {}", li, desc), "copies differ".into(), "identical copies".into());
            }
        }
    }
    // with validation data (and no scripted losses) the walk is the same for the epochs that were run: the validation pass
    // between the epochs must not influence the training walk
    let walked: Option<LearnJob> = match (res, &job.val) {
        (Ok((tl, _, _)), Some(_)) if job.script.is_empty() && job.phases <= 1 && !tl.is_empty() => Some(LearnJob { xs: job.xs.clone(), ts: job.ts.clone(), val: None,
            batch: job.batch, epochs: tl.len() as i32, script: vec![], print: None, phases: 1 }),
        _ => None,
    };
    let job = match &walked { Some(j) => j, None => job };
    if is(ctx, &["C03"]) && job.val.is_none() && job.script.is_empty() && spec.builds.iter().any(|b| matches!(b, Build::Feedback { .. })) {
        // (C03: every copy of a block layer is a parameter slot of its own — its state is its own too)
        if let Some((_, _, Some(what))) = learn_spec(spec, job) {
            ctx.oracle(false, "block-step-not-coupled-optimizer-step",
                "a group's step on a feedback block is: every repetition takes the optimizer step on its own gradient sum WITH ITS OWN STATE, then every copy of a layer receives the configured accumulation of the stepped copies",
                desc.clone(), what, "the accumulation of the stepped copies, computed from the gradient sums".into());
        }
    }
    if is(ctx, &["C04"]) && job.val.is_none() && job.script.is_empty() {
        if let Some((spec_loss, spec_params, coupled)) = learn_spec(spec, job) {
            if let Some(what) = coupled {
                ctx.oracle(false, "block-step-not-coupled-optimizer-step",
                    "a group's step on a feedback block is: every repetition takes the optimizer step on its own gradient sum, then every copy of a layer receives the configured accumulation (mean / sum) of the stepped copies",
                    desc.clone(), what, "the accumulation of the stepped copies, computed from the gradient sums".into());
            }
            let got = net_params(net);
            // the specification fixes which gradients are summed and when a step is taken, not the association of
            // the floating-point sums: compare within a rounding-sized tolerance (a wrong batch split, a mean for a
            // sum, a stale weight or a wrong step number are orders of magnitude larger)
            // (the absolute floor follows the scale of the job — data, targets and initial parameters —: with data of size
            // 1e-4 and zero initial weights the weights ARE sums of tiny terms, and a term left out is not a rounding)
            let job_scale = {
                let mut m = 0.0f32;
                for t in job.xs.iter().chain(job.ts.iter()) { for v in flat_any(t) { if v.is_finite() { m = m.max(v.abs()); } } }
                if let Ok(init) = net::build(spec) { for p in net_params(&init) { for v in p { if v.is_finite() { m = m.max(v.abs()); } } } }
                m.min(1.0).max(1e-30)
            };
            let close_vecs = |a: &[f32], b: &[f32]| a.len() == b.len() && a.iter().zip(b.iter()).all(|(x, y)| {
                (x.is_nan() && y.is_nan()) || x.to_bits() == y.to_bits() || ((*x as f64) - (*y as f64)).abs() <= 2e-5 * (x.abs().max(y.abs()).max(1e-3 * job_scale) as f64)
            });
            let same_w = got.len() == spec_params.len() && got.iter().zip(spec_params.iter()).all(|(a, b)| close_vecs(a, b));
            ctx.oracle(same_w, "learn-not-batch-sum-descent",
                "training must equal: per epoch, consecutive groups of B samples in order, one optimizer step (step number = epoch) per group on the sum of the per-sample gradients at the weights held before the step",
                desc.clone(), "final weights differ from the specification recomputed from the public per-sample pieces".into(), "equal weights (up to rounding)".into());
            ctx.oracle(close_vecs(tl, &spec_loss), "train-loss-not-mean-of-means", "the epoch's training loss must be the mean over its groups of the mean per-sample loss",
                desc.clone(), format!("{:?}", tl), format!("{:?}", spec_loss));
        }
        // the same walk with every step taken by the documented rule, independently of the library's optimizer
        // code (each parameter tensor — each filter — with its own state)
        if let Some((ind_params, well)) = learn_spec_independent(spec, job) {
            let got = net_params(net);
            let finite = ind_params.iter().all(|t| t.iter().all(|x| x.is_finite())) && got.iter().all(|t| t.iter().all(|x| x.is_finite()));
            if well && finite {
                let close = |a: &[f32], b: &[f32]| a.len() == b.len() && a.iter().zip(b.iter()).all(|(x, y)|
                    ((*x as f64) - (*y as f64)).abs() <= 2e-4 * (x.abs().max(y.abs()).max(1e-2) as f64));
                let same = got.len() == ind_params.len() && got.iter().zip(ind_params.iter()).all(|(a, b)| close(a, b));
                ctx.oracle(same, "group-step-not-one-optimizer-step",
                    "each group must be followed by exactly one optimizer step (step number = epoch) on every parameter tensor, applied to the sum of the group's per-sample gradients",
                    desc.clone(), "final weights differ from the documented update rule applied per parameter tensor to the group sums".into(), "equal weights (up to rounding)".into());
            }
        }
    }
    let _ = (tl, va);
}

/// C04: the specification of `learn` recomputed from the public per-sample pieces on a twin network
/// element-wise sum written out here: the specification oracle must not inherit a fault of the library's own addition
fn own_add(a: &mut Tensor, b: &Tensor) {
    match (&mut a.data, &b.data) {
        (Data::Single(x), Data::Single(y)) => { for (p, q) in x.iter_mut().zip(y) { *p += *q; } }
        (Data::Double(x), Data::Double(y)) => { for (r, t) in x.iter_mut().zip(y) { for (p, q) in r.iter_mut().zip(t) { *p += *q; } } }
        (Data::Triple(x), Data::Triple(y)) => { for (m, n) in x.iter_mut().zip(y) { for (r, t) in m.iter_mut().zip(n) { for (p, q) in r.iter_mut().zip(t) { *p += *q; } } } }
        (Data::Quadruple(x), Data::Quadruple(y)) => {
            for (k, l) in x.iter_mut().zip(y) { for (m, n) in k.iter_mut().zip(l) { for (r, t) in m.iter_mut().zip(n) { for (p, q) in r.iter_mut().zip(t) { *p += *q; } } } }
        }
        (Data::Nested(x), Data::Nested(y)) => { for (p, q) in x.iter_mut().zip(y) { own_add(p, q); } }
        (Data::NestedOptional(x), Data::NestedOptional(y)) => { for (p, q) in x.iter_mut().zip(y) { if let (Some(p), Some(q)) = (p.as_mut(), q.as_ref()) { own_add(p, q); } } }
        _ => a.add_inplace(b),
    }
}

/// what the coupled parameters of dense blocks must be after one plain-SGD group step (mean / add coupling), computed here
/// from the parameters before the step and the gradient sums: `(top-level layer, unrolled position, tensor (0 weights, 1 bias), values)`
fn coupled_expectation(spec: &NetSpec, twin: &Network, sum_w: &[Tensor], sum_b: &[Option<Tensor>], epoch: i32,
    velocity: &mut std::collections::HashMap<(usize, usize, usize), Vec<f64>>) -> Vec<(usize, usize, usize, Vec<f64>)> {
    let mut out = Vec::new();
    // plain SGD, or SGD with momentum (each COPY keeps its own velocity: v = g in a step numbered 1, mu v + (1 - dampening) g later)
    let (lr, momentum) = match &spec.opt {
        Some(crate::ops::scalar::OptSpec::Sgd(lr, None)) if *lr != 0.0 => (*lr as f64, None),
        Some(crate::ops::scalar::OptSpec::Sgdm(lr, mu, damp, None)) if *lr != 0.0 && *mu != 0.0 => (*lr as f64, Some((*mu as f64, *damp as f64))),
        _ => return out,
    };
    let blocks: Vec<&Build> = spec.builds.iter().filter(|b| matches!(b, Build::Feedback { .. } | Build::Layer(_))).collect();
    let nl = twin.layers.len();
    if blocks.len() != nl || sum_w.len() != nl { return out; }
    for (li, b) in blocks.iter().enumerate() {
        let (inner, loops, acc) = match b { Build::Feedback { inner, loops, acc, .. } => (inner, *loops, acc.as_str()), _ => continue };
        if !(acc == "mean" || acc == "add") || !inner.iter().all(|l| matches!(l, InnerSpec::Dense { .. })) { continue; }
        let f = match &twin.layers[li] { Layer::Feedback(f) => f, _ => continue };
        let len = inner.len();
        let total = f.layers.len();
        if total != len * loops { continue; }
        let (gw, gb) = match (&sum_w[nl - 1 - li].data, sum_b[nl - 1 - li].as_ref().map(|t| &t.data)) {
            (Data::Nested(a), Some(Data::NestedOptional(b))) if a.len() == total && b.len() == total => (a, b),
            _ => continue,
        };
        for l in 0..len {
            for which in 0..2usize {
                let mut acc_v: Option<Vec<f64>> = None;
                let mut ok = true;
                for r in 0..loops {
                    let pos = l + r * len;
                    let ps = layer_params(&f.layers[pos]);
                    if which >= ps.len() { ok = false; break; }
                    let g: Vec<f32> = if which == 0 { flat_any(&gw[total - 1 - pos]) } else { match &gb[total - 1 - pos] { Some(t) => flat_any(t), None => { ok = false; break; } } };
                    if g.len() != ps[which].len() { ok = false; break; }
                    let dir: Vec<f64> = match momentum {
                        None => g.iter().map(|x| *x as f64).collect(),
                        Some((mu, damp)) => {
                            let v_old = velocity.get(&(li, pos, which)).cloned().unwrap_or_else(|| vec![0.0; g.len()]);
                            let v: Vec<f64> = if epoch > 1 { v_old.iter().zip(g.iter()).map(|(v, g)| mu * v + (1.0 - damp) * *g as f64).collect() } else { g.iter().map(|x| *x as f64).collect() };
                            velocity.insert((li, pos, which), v.clone());
                            v
                        }
                    };
                    let stepped: Vec<f64> = ps[which].iter().zip(dir.iter()).map(|(w, d)| *w as f64 - lr * d).collect();
                    acc_v = Some(match acc_v { None => stepped, Some(a) => a.iter().zip(stepped.iter()).map(|(x, y)| x + y).collect() });
                }
                if let (true, Some(mut v)) = (ok, acc_v) {
                    if acc == "mean" { for x in v.iter_mut() { *x /= loops as f64; } }
                    for r in 0..loops { out.push((li, l + r * len, which, v.clone())); }
                }
            }
        }
    }
    out
}

pub fn learn_spec(spec: &NetSpec, job: &LearnJob) -> Option<(Vec<f32>, Vec<Vec<f32>>, Option<String>)> {
    let mut twin = net::build(spec).ok()?;
    net::set_all_training(&mut twin, true);
    let mut coupling_fault: Option<String> = None;
    let mut velocity: std::collections::HashMap<(usize, usize, usize), Vec<f64>> = std::collections::HashMap::new();
    let r = net::try_run(std::panic::AssertUnwindSafe(|| {
        let mut train_loss = Vec::new();
        for _phase in 0..job.phases.max(1) {
        train_loss.clear();
        for epoch in 1..=job.epochs {
            let mut loss_epoch = 0.0f32;
            let mut groups = 0;
            let mut i = 0;
            while i < job.xs.len() {
                let end = (i + job.batch).min(job.xs.len()).min(job.ts.len().max(i));
                if end <= i { break; }
                // gradients of every sample of the group at the weights held before the step
                let mut sum_w: Vec<Tensor> = Vec::new();
                let mut sum_b: Vec<Option<Tensor>> = Vec::new();
                let mut losses = Vec::new();
                for s in i..end {
                    let (pre, act, maxp, fbs) = twin.forward(&job.xs[s]);
                    let (loss, grad) = twin.verif_objective(act.last().unwrap(), &job.ts[s]);
                    let (wg, bg) = twin.verif_backward(grad, &pre, &act, &maxp, fbs);
                    losses.push(loss);
                    if sum_w.is_empty() {
                        sum_w = wg;
                        sum_b = bg;
                    } else {
                        for (a, b) in sum_w.iter_mut().zip(wg.iter()) { own_add(a, b); }
                        for (a, b) in sum_b.iter_mut().zip(bg.iter()) {
                            if let (Some(a), Some(b)) = (a.as_mut(), b.as_ref()) { own_add(a, b); }
                        }
                    }
                }
                loss_epoch += losses.iter().sum::<f32>() / losses.len() as f32;
                // exactly one optimizer step, step number = epoch index, on the summed gradients
                let expect = coupled_expectation(spec, &twin, &sum_w, &sum_b, epoch, &mut velocity);
                twin.verif_update(epoch, sum_w, sum_b);
                for (li, pos, which, v) in expect.iter() {
                    if let Layer::Feedback(f) = &twin.layers[*li] {
                        let ps = layer_params(&f.layers[*pos]);
                        let bad = ps.get(*which).map_or(true, |got| got.len() != v.len() || got.iter().zip(v.iter()).any(|(a, b)| a.is_finite() && b.is_finite() && ((*a as f64) - b).abs() > 2e-5 * b.abs().max(1e-3)));
                        if bad && coupling_fault.is_none() {
                            coupling_fault = Some(format!("epoch {} group at sample {}: block layer {} position {} {}: {:?} after the step, expected {:?}", epoch, i, li, pos, if *which == 0 { "weights" } else { "bias" }, ps.get(*which), v));
                        }
                    }
                }
                groups += 1;
                i = end;
            }
            train_loss.push(loss_epoch / groups as f32);
        }
        }
        train_loss
    })).ok()?;
    Some((r, net_params(&twin), coupling_fault))
}

/// the parameters of a top-level layer as flat lists: one per weight matrix / filter, then the bias
fn set_layer_flat(l: &mut Layer, vals: &[Vec<f32>]) {
    fn refill(t: &Tensor, v: &[f32]) -> Tensor {
        let mut out = t.clone();
        let mut it = v.iter();
        match &mut out.data {
            Data::Single(a) => for x in a.iter_mut() { *x = *it.next().unwrap(); },
            Data::Double(a) => for r in a.iter_mut() { for x in r.iter_mut() { *x = *it.next().unwrap(); } },
            Data::Triple(a) => for m in a.iter_mut() { for r in m.iter_mut() { for x in r.iter_mut() { *x = *it.next().unwrap(); } } },
            _ => panic!("parameter rank"),
        }
        out
    }
    match l {
        Layer::Dense(d) => {
            let w = refill(d.verif_weights(), &vals[0]);
            d.verif_set_weights(w);
            if let Some(b) = d.verif_bias().clone() { d.verif_set_bias(Some(refill(&b, &vals[1]))); }
        }
        Layer::Convolution(d) => { let ks: Vec<Tensor> = d.verif_kernels().iter().zip(vals.iter()).map(|(k, v)| refill(k, v)).collect(); d.verif_set_kernels(ks); }
        Layer::Deconvolution(d) => { let ks: Vec<Tensor> = d.verif_kernels().iter().zip(vals.iter()).map(|(k, v)| refill(k, v)).collect(); d.verif_set_kernels(ks); }
        _ => {}
    }
}

/// C04, independent of the library's optimizer code: the same walk as `learn_spec`, but every step is the
/// documented update rule applied in double precision to each scalar parameter with its own state.
/// Networks without feedback blocks (a block has its own optimizer and coupling).  Returns the final
/// parameters and whether every step stayed well-conditioned.
pub fn learn_spec_independent(spec: &NetSpec, job: &LearnJob) -> Option<(Vec<Vec<f32>>, bool)> {
    let opt = spec.opt.as_ref()?;
    if spec.builds.iter().any(|b| matches!(b, Build::Feedback { .. })) { return None; }
    let mut twin = net::build(spec).ok()?;
    net::set_all_training(&mut twin, true);
    net::try_run(|| {
        let nl = twin.layers.len();
        // per layer, per parameter tensor, per scalar: value and optimizer state in f64
        let mut w: Vec<Vec<Vec<f64>>> = twin.layers.iter().map(|l| layer_params(l).into_iter().map(|v| v.into_iter().map(|x| x as f64).collect()).collect()).collect();
        let mut st: Vec<Vec<Vec<[f64; 3]>>> = w.iter().map(|l| l.iter().map(|t| vec![[0.0; 3]; t.len()]).collect()).collect();
        let mut well = true;
        for _phase in 0..job.phases.max(1) {
        for epoch in 1..=job.epochs {
            let mut i = 0;
            while i < job.xs.len() {
                let end = (i + job.batch).min(job.xs.len()).min(job.ts.len().max(i));
                if end <= i { break; }
                let mut sum_w: Vec<Tensor> = Vec::new();
                let mut sum_b: Vec<Option<Tensor>> = Vec::new();
                for s in i..end {
                    let (pre, act, maxp, fbs) = twin.forward(&job.xs[s]);
                    let (_, grad) = twin.verif_objective(act.last().unwrap(), &job.ts[s]);
                    let (wg, bg) = twin.verif_backward(grad, &pre, &act, &maxp, fbs);
                    if sum_w.is_empty() {
                        sum_w = wg;
                        sum_b = bg;
                    } else {
                        for (a, b) in sum_w.iter_mut().zip(wg.iter()) { own_add(a, b); }
                        for (a, b) in sum_b.iter_mut().zip(bg.iter()) {
                            if let (Some(a), Some(b)) = (a.as_mut(), b.as_ref()) { own_add(a, b); }
                        }
                    }
                }
                for li in 0..nl {
                    let gi = nl - 1 - li;
                    let (is_dense, has_bias) = match &twin.layers[li] { Layer::Dense(d) => (true, d.verif_bias().is_some()), _ => (false, false) };
                    if w[li].is_empty() { continue; }
                    let gflat: Vec<f32> = flat_any(&sum_w[gi]);
                    let ntens = if is_dense { 1 } else { w[li].len() };
                    let mut off = 0;
                    for ti in 0..ntens {
                        for k in 0..w[li][ti].len() {
                            well &= opt.step_f64(&mut w[li][ti][k], &mut st[li][ti][k], epoch, gflat[off + k] as f64);
                        }
                        off += w[li][ti].len();
                    }
                    if is_dense && has_bias {
                        let bflat: Vec<f32> = flat_any(sum_b[gi].as_ref().unwrap());
                        for k in 0..w[li][1].len() {
                            well &= opt.step_f64(&mut w[li][1][k], &mut st[li][1][k], epoch, bflat[k] as f64);
                        }
                    }
                    let vals: Vec<Vec<f32>> = w[li].iter().map(|t| t.iter().map(|x| *x as f32).collect()).collect();
                    set_layer_flat(&mut twin.layers[li], &vals);
                }
                i = end;
            }
        }
        }
        (net_params(&twin), well)
    }).ok()
}

/* ---------------------------------------------------------------------------------------------
 * C05: thread-count / schedule sweep on the implementation
 * ------------------------------------------------------------------------------------------ */

pub fn direct_c05(ctx: &mut Ctx) {
    use crate::gen::arch::{input_for, random_net, random_opt, target_for, ArchCfg};
    use crate::gen::Gen;
    let thorough = ctx.thorough();
    let pools: Vec<usize> = vec![1, 2, 3, 5, 16, 33];
    let reps = if thorough { 10 } else { 2 };
    let sizes: Vec<usize> = if thorough { vec![63, 64, 65, 129, 300] } else { vec![63, 65, 129] };
    let nets = if thorough { 8 } else { 3 };
    let mut jobs = Vec::new();
    {
        let mut g = Gen::new(ctx);
        let cfg = ArchCfg { final_dense: Some(3), max_layers: 4, max_dim: 4, dropout: true, ..ArchCfg::small() };
        for i in 0..nets {
            let (mut spec, out) = random_net(&mut g, &cfg);
            spec.opt = Some(random_opt(&mut g));
            let n = sizes[i % sizes.len()];
            let xs: Vec<Tensor> = (0..n).map(|_| input_for(&mut g, &spec.input)).collect();
            let ts: Vec<Tensor> = (0..n).map(|_| target_for(&mut g, &out, &spec.obj)).collect();
            jobs.push((spec, xs, ts));
        }
        // deterministic core: one source feeding several skip connections (the gradients coming back over them are
        // added into the source's gradient; an order taken from a per-instance hash seed shows between fresh networks)
        for (width, targets) in [(4usize, vec![2usize, 3, 4]), (3, vec![2, 3, 4, 5])] {
            use crate::gen::arch::dense_spec;
            let dcfg = ArchCfg { dropout: false, ..ArchCfg::small() };
            let depth = targets.iter().max().unwrap() + 1;
            let mut builds: Vec<Build> = (0..depth).map(|_| Build::Layer(dense_spec(&mut g, &dcfg, width, width, "tanh", true))).collect();
            for t in targets.iter() { builds.push(Build::Connect(1, *t)); }
            let mut spec = NetSpec { input: Shape::Single(width), builds, skipacc: "add".into(), loopacc: "mean".into(), opt: None, obj: "mse".into(), clamp: None };
            spec.opt = Some(random_opt(&mut g));
            let out = Sh::Flat(width);
            let n = 63;
            let xs: Vec<Tensor> = (0..n).map(|_| input_for(&mut g, &spec.input)).collect();
            let ts: Vec<Tensor> = (0..n).map(|_| target_for(&mut g, &out, &spec.obj)).collect();
            jobs.push((spec, xs, ts));
        }
        // deterministic core: wide dense layers (>= 512 columns in the forward product and in the transposed product of
        // backward) — a kernel that splits long rows by the number of workers would re-associate their sums
        for (inp, hid) in [(640usize, 4usize), (4, 640)] {
            use crate::gen::arch::dense_spec;
            let dcfg = ArchCfg { dropout: false, wscale: 0.5, ..ArchCfg::small() };
            let builds = vec![Build::Layer(dense_spec(&mut g, &dcfg, inp, hid, "tanh", true)), Build::Layer(dense_spec(&mut g, &dcfg, hid, 2, "linear", true))];
            let mut spec = NetSpec { input: Shape::Single(inp), builds, skipacc: "add".into(), loopacc: "mean".into(), opt: None, obj: "mse".into(), clamp: None };
            spec.opt = Some(random_opt(&mut g));
            let n = 20;
            let xs: Vec<Tensor> = (0..n).map(|_| input_for(&mut g, &spec.input)).collect();
            let ts: Vec<Tensor> = (0..n).map(|_| target_for(&mut g, &Sh::Flat(2), &spec.obj)).collect();
            jobs.push((spec, xs, ts));
        }
        // … and means over many operands at rank 3: a loop connection with five iterations around a convolution (mean
        // accumulation), and a spatial feedback block with six loops and output skips (mean)
        {
            let conv1 = |g: &mut Gen| InnerSpec::Conv { filters: 1, act: "tanh".into(), k: (3, 3), s: (1, 1), p: (1, 1), d: (1, 1), dropout: None,
                ks: vec![g.tensor_of(&Shape::Triple(1, 3, 3), false)] };
            let dcfg = ArchCfg { dropout: false, wscale: 0.5, ..ArchCfg::small() };
            let mut builds = vec![Build::Layer(conv1(&mut g)), Build::Layer(conv1(&mut g)), Build::Layer(conv1(&mut g)),
                Build::Layer(crate::gen::arch::dense_spec(&mut g, &dcfg, 20, 3, "linear", true))];
            builds.push(Build::Loopback { outof: 1, into: 1, iterations: 5, scale: "inv".into(), inskips: false });
            let mut spec = NetSpec { input: Shape::Triple(1, 4, 5), builds, skipacc: "add".into(), loopacc: "mean".into(), opt: None, obj: "mse".into(), clamp: None };
            spec.opt = Some(random_opt(&mut g));
            let n = 20;
            let xs: Vec<Tensor> = (0..n).map(|_| input_for(&mut g, &spec.input)).collect();
            let ts: Vec<Tensor> = (0..n).map(|_| target_for(&mut g, &Sh::Flat(3), &spec.obj)).collect();
            jobs.push((spec, xs, ts));
            let builds = vec![Build::Feedback { inner: vec![conv1(&mut g)], loops: 6, inskips: false, outskips: true, acc: "mean".into() },
                Build::Layer(crate::gen::arch::dense_spec(&mut g, &dcfg, 20, 3, "linear", true))];
            let mut spec = NetSpec { input: Shape::Triple(1, 4, 5), builds, skipacc: "add".into(), loopacc: "mean".into(), opt: None, obj: "mse".into(), clamp: None };
            spec.opt = Some(random_opt(&mut g));
            let xs: Vec<Tensor> = (0..n).map(|_| input_for(&mut g, &spec.input)).collect();
            let ts: Vec<Tensor> = (0..n).map(|_| target_for(&mut g, &Sh::Flat(3), &spec.obj)).collect();
            jobs.push((spec, xs, ts));
        }
    }
    // per-sample losses so large that their single-precision sum over a batch overflows (inputs 0: the prediction is 0 and
    // the weights never move): the reported loss is the same infinity for every pool
    let first_pair;
    {
        let mut g = Gen::new(ctx);
        let lin = InnerSpec::Dense { out: 1, act: "linear".into(), bias: false, dropout: None, w: Tensor::double(vec![vec![0.5]]), b: None };
        let spec = NetSpec { input: Shape::Single(1), builds: vec![Build::Layer(lin)], skipacc: "add".into(), loopacc: "mean".into(),
            opt: Some(crate::ops::scalar::OptSpec::Sgd(1e-30, None)), obj: "mse".into(), clamp: None };
        // … one batch of three (any two of the losses have a finite sum, all three do not), and batches of five
        for (n, tv) in [(3usize, vec![1.0e19f32, 1.0954451e19, 1.2247449e19]), (23, vec![8.9e18, 9.0e18, 8.8e18, -8.95e18, 9.05e18])] {
            let xs: Vec<Tensor> = (0..n).map(|_| Tensor::single(vec![0.0])).collect();
            let ts: Vec<Tensor> = (0..n).map(|i| Tensor::single(vec![tv[i % tv.len()]])).collect();
            jobs.push((spec.clone(), xs, ts));
        }
        // towers of equal "same" convolutions with rectangular kernels and per-axis padding (1x3 with padding (0,1), 3x1 with
        // (1,0)): consecutive backward calls of one worker have identical extents
        for (k, p) in [((1usize, 3usize), (0usize, 1usize)), ((3, 1), (1, 0))] {
            let conv = |g: &mut Gen| InnerSpec::Conv { filters: 2, act: "tanh".into(), k, s: (1, 1), p, d: (1, 1), dropout: None,
                ks: (0..2).map(|_| g.tensor_of(&Shape::Triple(2, k.0, k.1), false)).collect() };
            let dcfg = ArchCfg { dropout: false, wscale: 0.4, ..ArchCfg::small() };
            let builds = vec![Build::Layer(conv(&mut g)), Build::Layer(conv(&mut g)), Build::Layer(crate::gen::arch::dense_spec(&mut g, &dcfg, 40, 3, "linear", true))];
            let spec = NetSpec { input: Shape::Triple(2, 4, 5), builds, skipacc: "add".into(), loopacc: "mean".into(),
                opt: Some(crate::ops::scalar::OptSpec::Sgd(0.05, None)), obj: "mse".into(), clamp: None };
            let n = 24;
            let xs: Vec<Tensor> = (0..n).map(|_| input_for(&mut g, &spec.input)).collect();
            let ts: Vec<Tensor> = (0..n).map(|_| target_for(&mut g, &Sh::Flat(3), "mse")).collect();
            jobs.push((spec, xs, ts));
        }
        // soft-max as the activation of spatial layers (a convolution, a deconvolution, a convolution inside a block): its
        // backward pass depends on its own sample's forward pass only
        for kind in 0..3usize {
            let k3 = |g: &mut Gen, c: usize| g.tensor_of(&Shape::Triple(c, 3, 3), false);
            let first = match kind {
                0 => Build::Layer(InnerSpec::Conv { filters: 2, act: "softmax".into(), k: (3, 3), s: (1, 1), p: (1, 1), d: (1, 1), dropout: None, ks: (0..2).map(|_| k3(&mut g, 1)).collect() }),
                1 => Build::Layer(InnerSpec::Deconv { filters: 2, act: "softmax".into(), k: (3, 3), s: (1, 1), p: (1, 1), dropout: None, ks: (0..2).map(|_| k3(&mut g, 1)).collect() }),
                _ => Build::Feedback { inner: vec![InnerSpec::Conv { filters: 1, act: "softmax".into(), k: (3, 3), s: (1, 1), p: (1, 1), d: (1, 1), dropout: None, ks: vec![k3(&mut g, 1)] }],
                    loops: 2, inskips: false, outskips: false, acc: "add".into() },
            };
            let count = if kind == 2 { 20 } else { 40 };
            let dcfg = ArchCfg { dropout: false, wscale: 0.5, ..ArchCfg::small() };
            let builds = vec![first, Build::Layer(crate::gen::arch::dense_spec(&mut g, &dcfg, count, 3, "softmax", true))];
            let spec = NetSpec { input: Shape::Triple(1, 4, 5), builds, skipacc: "add".into(), loopacc: "mean".into(),
                opt: Some(crate::ops::scalar::OptSpec::Sgd(0.05, None)), obj: "ce".into(), clamp: None };
            let n = 24;
            let xs: Vec<Tensor> = (0..n).map(|_| input_for(&mut g, &spec.input)).collect();
            let ts: Vec<Tensor> = (0..n).map(|_| target_for(&mut g, &Sh::Flat(3), "ce")).collect();
            jobs.push((spec, xs, ts));
        }
        // a block whose input feeds SEVERAL later repetitions (input skips, three and four loops): the gradients coming back over
        // all of them are added, whatever order a freshly built network's tables are walked in
        for loops in [3usize, 4] {
            use crate::gen::arch::dense_spec;
            let dcfg = ArchCfg { dropout: false, wscale: 0.6, ..ArchCfg::small() };
            let inner = dense_spec(&mut g, &dcfg, 3, 3, "tanh", true);
            let head = dense_spec(&mut g, &dcfg, 3, 2, "linear", true);
            let spec = NetSpec { input: Shape::Single(3), builds: vec![Build::Feedback { inner: vec![inner], loops, inskips: true, outskips: loops == 4, acc: "add".into() }, Build::Layer(head)],
                skipacc: "add".into(), loopacc: "mean".into(), opt: Some(crate::ops::scalar::OptSpec::Sgd(0.05, None)), obj: "mse".into(), clamp: None };
            let n = 24;
            let xs: Vec<Tensor> = (0..n).map(|_| input_for(&mut g, &Shape::Single(3))).collect();
            let ts: Vec<Tensor> = (0..n).map(|_| target_for(&mut g, &Sh::Flat(2), "mse")).collect();
            jobs.push((spec, xs, ts));
        }
        // soft-max outputs whose maximum is TIED between several classes (output rows shared in period 4; a bias-free ReLU layer
        // that blank and all-negative samples switch off entirely, so the output is exactly uniform), narrow and wide (320
        // classes): which of the tied classes counts is fixed by the data, not by how the work is split
        for (hidden, classes) in [(7usize, 5usize), (16, 320), (8, 257)] {
            let w1 = g.tensor_of(&Shape::Double(hidden, 6), false);
            let l1 = InnerSpec::Dense { out: hidden, act: "relu".into(), bias: false, dropout: None, w: w1, b: None };
            let rows: Vec<Vec<f32>> = (0..4).map(|_| (0..hidden).map(|_| g.rng().uniform(-0.8, 0.8)).collect()).collect();
            let w2 = Tensor::double((0..classes).map(|c| rows[c % 4].clone()).collect());
            let l2 = InnerSpec::Dense { out: classes, act: "softmax".into(), bias: false, dropout: None, w: w2, b: None };
            let spec = NetSpec { input: Shape::Single(6), builds: vec![Build::Layer(l1), Build::Layer(l2)], skipacc: "add".into(), loopacc: "mean".into(),
                opt: Some(crate::ops::scalar::OptSpec::Sgd(1e-30, None)), obj: "ce".into(), clamp: None };
            let n = 40;
            let xs: Vec<Tensor> = (0..n).map(|i| match i % 4 {
                0 => Tensor::single(vec![0.0; 6]),
                1 => Tensor::single((0..6).map(|_| -g.rng().uniform(5.0, 9.0)).collect()),
                _ => input_for(&mut g, &spec.input),
            }).collect();
            let ts: Vec<Tensor> = (0..n).map(|i| { let mut t = vec![0.0f32; classes]; t[(i * 7) % classes] = 1.0; if i % 3 == 0 { t[(i * 7 + 4) % classes] = 1.0; } Tensor::single(t) }).collect();
            jobs.push((spec, xs, ts));
        }
        // a sample whose loss is infinite (an outlier target under MSE) while its clamped gradient is finite: training goes
        // on, and every other sample of its group still contributes its own gradient, however the group is split
        for (oi, outliers) in [vec![0usize], vec![2, 7], vec![4, 5, 11]].iter().enumerate() {
            use crate::gen::arch::dense_spec;
            let dcfg = ArchCfg { dropout: false, wscale: 0.6, ..ArchCfg::small() };
            let l1 = dense_spec(&mut g, &dcfg, 3, 4, "tanh", true);
            let l2 = dense_spec(&mut g, &dcfg, 4, 1, "linear", true);
            let spec = NetSpec { input: Shape::Single(3), builds: vec![Build::Layer(l1), Build::Layer(l2)], skipacc: "add".into(), loopacc: "mean".into(),
                opt: Some(crate::ops::scalar::OptSpec::Sgd(0.05, None)), obj: ["mse", "mae", "mse"][oi].into(), clamp: Some((-1.0, 1.0)) };
            let n = 16;
            let xs: Vec<Tensor> = (0..n).map(|_| input_for(&mut g, &Shape::Single(3))).collect();
            let ts: Vec<Tensor> = (0..n).map(|i| if outliers.contains(&i) { Tensor::single(vec![if oi == 1 { f32::INFINITY } else { 1e30 }]) } else { target_for(&mut g, &Sh::Flat(1), "mse") }).collect();
            jobs.push((spec, xs, ts));
        }
        // two feedback blocks of the same sizes and different wiring (input skips / output skips), trained one after the
        // other in ONE pool: nothing a worker thread keeps from the first may show in the second
        use crate::gen::arch::dense_spec;
        let dcfg = ArchCfg { dropout: false, wscale: 0.6, ..ArchCfg::small() };
        let inner = dense_spec(&mut g, &dcfg, 3, 3, "tanh", true);
        let head = dense_spec(&mut g, &dcfg, 3, 2, "linear", true);
        let mk = |i: bool, o: bool| NetSpec { input: Shape::Single(3), builds: vec![Build::Feedback { inner: vec![inner.clone()], loops: 2, inskips: i, outskips: o, acc: "add".into() },
            Build::Layer(head.clone())], skipacc: "add".into(), loopacc: "mean".into(),
            // (an optimizer whose step depends on the step number and on carried moments: nothing of either may be left behind either)
            opt: Some(crate::ops::scalar::OptSpec::Adam(0.01, 0.9, 0.999, 1e-8, None)), obj: "mse".into(), clamp: None };
        let n = 24;
        let xs: Vec<Tensor> = (0..n).map(|_| input_for(&mut g, &Shape::Single(3))).collect();
        let ts: Vec<Tensor> = (0..n).map(|_| target_for(&mut g, &Sh::Flat(2), "mse")).collect();
        first_pair = jobs.len();
        jobs.push((mk(true, false), xs.clone(), ts.clone()));
        jobs.push((mk(false, true), xs, ts));
    }
    let mut evals = 0u64;
    let one = |spec: &NetSpec, xs: &Vec<Tensor>, ts: &Vec<Tensor>| -> Result<Vec<u32>, String> {
        net::try_run(|| {
            let mut n = net::build(spec).unwrap();
            let job = LearnJob { xs: xs[..xs.len().min(24)].to_vec(), ts: ts[..ts.len().min(24)].to_vec(),
                val: Some((xs.clone(), ts.clone(), 5)), batch: 5, epochs: 2, script: vec![], print: None, phases: 1 };
            let (tl, vl, va) = net::run_learn(&mut n, &job).unwrap();
            let xr: Vec<&Tensor> = xs.iter().collect();
            let tr: Vec<&Tensor> = ts.iter().collect();
            let (l, a) = n.validate(&xr, &tr, 0.1);
            let preds = n.predict_batch(&xr);
            let mut bits: Vec<u32> = Vec::new();
            for v in tl.iter().chain(vl.iter()).chain(va.iter()) { bits.push(v.to_bits()); }
            for p in net_params(&n) { for v in p { bits.push(v.to_bits()); } }
            bits.push(l.to_bits());
            bits.push(a.to_bits());
            for p in preds { for v in flat_any(&p) { bits.push(v.to_bits()); } }
            bits
        })
    };
    // the pair: A then B in one pool, B compared with B alone in a fresh single-thread pool
    {
        let (sa, xa, ta) = &jobs[first_pair];
        let (sb, xb, tb) = &jobs[first_pair + 1];
        let fresh = rayon::ThreadPoolBuilder::new().num_threads(1).build().ok().map(|p| p.install(|| one(sb, xb, tb)));
        for &t in &pools {
            if let Ok(pool) = rayon::ThreadPoolBuilder::new().num_threads(t).build() {
                let r = pool.install(|| { let _ = one(sa, xa, ta); one(sb, xb, tb) });
                evals += 1;
                let same = match (&fresh, &r) { (Some(Ok(a)), Ok(b)) => a == b, (Some(Err(a)), Err(b)) => a == b, _ => false };
                ctx.oracle(same, "schedule-dependent-result",
                    "training must give bit-identical results whatever the worker threads did before (another network trained in the same pool)",
                    format!("{} trained after {} in one pool of {} threads", clip(&sb.token(), 300), clip(&sa.token(), 300), t),
                    "bit patterns differ from the run in a fresh pool".into(), "bit-identical".into());
            }
        }
    }
    for (spec, xs, ts) in jobs.iter() {
        // (train losses, val losses, val acc, final weights, validate, predictions) as bit patterns
        let run = |threads: usize, jitter: u64| -> Result<Vec<u32>, String> {
            let pool = rayon::ThreadPoolBuilder::new().num_threads(threads).build().map_err(|e| e.to_string())?;
            neurons::verif::set_jitter(jitter);
            let r = pool.install(|| one(spec, xs, ts));
            neurons::verif::set_jitter(0);
            r
        };
        let base = run(1, 0);
        for &t in &pools {
            for rep in 0..reps {
                let r = run(t, if rep == 0 { 0 } else { ctx.seed.wrapping_mul(31).wrapping_add(rep as u64 * 977 + t as u64) | 1 });
                evals += 1;
                let same = match (&base, &r) {
                    (Ok(a), Ok(b)) => a == b,
                    (Err(a), Err(b)) => a == b,
                    _ => false,
                };
                ctx.oracle(same, "schedule-dependent-result",
                    "training, validation and batched prediction must give bit-identical results for every number of worker threads and every schedule",
                    format!("{} with {} samples, pool of {} threads, repetition {}", clip(&spec.token(), 600), xs.len(), t, rep),
                    "bit patterns differ from the single-thread run".into(), "bit-identical".into());
            }
        }
    }
    // repeated runs on ONE object from the same weights and data: batched prediction before and after a training run that
    // leaves the weights bit for bit where they were (learning rate 1e-30) — a run that stops early, a run that uses its
    // whole budget, a run without validation data; networks with dropout (top level and inside a block)
    {
        use crate::gen::arch::dense_spec;
        let mut g = Gen::new(ctx);
        let dcfg = ArchCfg { dropout: false, wscale: 0.5, ..ArchCfg::small() };
        let mut specs = Vec::new();
        for kind in 0..2 {
            let mut d1 = dense_spec(&mut g, &dcfg, 4, 4, "tanh", true);
            if let InnerSpec::Dense { dropout, .. } = &mut d1 { *dropout = Some(0.5); }
            let head = dense_spec(&mut g, &dcfg, 4, 3, "linear", true);
            let builds = if kind == 0 { vec![Build::Layer(d1), Build::Layer(head)] }
                else { vec![Build::Feedback { inner: vec![d1], loops: 2, inskips: false, outskips: false, acc: "mean".into() }, Build::Layer(head)] };
            specs.push(NetSpec { input: Shape::Single(4), builds, skipacc: "add".into(), loopacc: "mean".into(),
                opt: Some(crate::ops::scalar::OptSpec::Sgd(1e-30, None)), obj: "mse".into(), clamp: None });
        }
        let n = 150;
        let xs: Vec<Tensor> = (0..n).map(|_| input_for(&mut g, &Shape::Single(4))).collect();
        let ts: Vec<Tensor> = (0..n).map(|_| target_for(&mut g, &Sh::Flat(3), "mse")).collect();
        let rising: Vec<f32> = (1..=8).map(|i| i as f32).collect();
        let falling: Vec<f32> = (1..=8).map(|i| 9.0 - i as f32).collect();
        for spec in specs.iter() {
            for (label, with_val, script) in [("stopped early", true, rising.clone()), ("whole budget", true, falling.clone()), ("no validation data", false, vec![])] {
                for &t in &[1usize, 3] {
                    let pool = match rayon::ThreadPoolBuilder::new().num_threads(t).build() { Ok(p) => p, Err(_) => continue };
                    let r = pool.install(|| net::try_run(|| {
                        let mut nw = net::build(spec).unwrap();
                        let xr: Vec<&Tensor> = xs.iter().collect();
                        let bits = |nw: &Network| -> Vec<u32> { nw.predict_batch(&xr).iter().flat_map(|p| flat_any(p)).map(|v| v.to_bits()).collect() };
                        let wbits = |nw: &Network| -> Vec<u32> { net_params(nw).into_iter().flatten().map(|v| v.to_bits()).collect() };
                        let (p0, w0) = (bits(&nw), wbits(&nw));
                        let job = LearnJob { xs: xs[..10].to_vec(), ts: ts[..10].to_vec(), val: if with_val { Some((xs[..5].to_vec(), ts[..5].to_vec(), 2)) } else { None },
                            batch: 4, epochs: 8, script: script.clone(), print: None, phases: 1 };
                        let (tl, _, _) = net::run_learn(&mut nw, &job).unwrap();
                        (p0 == bits(&nw), w0 == wbits(&nw), tl.len())
                    }));
                    evals += 1;
                    match r {
                        Ok((same_p, same_w, ran)) => {
                            if same_w {
                                ctx.oracle(same_p, "repeated-run-differs", "repeated runs from the same weights and data must be identical (batched prediction on one object, before and after a training run that left the weights unchanged)",
                                    format!("{} predict_batch of 150, then learn ({}; {} of 8 epochs ran), then predict_batch again, pool of {} threads", clip(&spec.token(), 500), label, ran, t),
                                    "bit patterns of the second run differ".into(), "bit-identical".into());
                            }
                        }
                        Err(c) => ctx.oracle(false, "repeated-run-differs", "repeated runs from the same weights and data must be identical", format!("{} ({})", clip(&spec.token(), 500), label), format!("panic ({})", c), "bit-identical".into()),
                    }
                }
            }
        }
    }
    // many chunks: validate / predict_batch on several hundred samples (>= 5 chunks of 64, where a reduction
    // performed on the parallel iterator would associate the partial sums schedule-dependently)
    let many_sets = if thorough { 60 } else { 16 };
    let mut many_jobs = Vec::new();
    {
        let mut g = Gen::new(ctx);
        let cfg = ArchCfg { final_dense: Some(2), max_layers: 2, max_dim: 4, conv: false, deconv: false, pool: false, flat_input: Some(true), ..ArchCfg::small() };
        for i in 0..many_sets {
            let (mut spec, out) = random_net(&mut g, &cfg);
            spec.obj = "mse".into();
            let n = [583usize, 321, 1031, 449][i % 4];
            let xs: Vec<Tensor> = (0..n).map(|_| input_for(&mut g, &spec.input)).collect();
            let mut ts: Vec<Tensor> = (0..n).map(|_| target_for(&mut g, &out, &spec.obj)).collect();
            // every fourth set holds a few samples whose loss is not finite (a target of 3e19: the squared error overflows; a NaN
            // target): the other samples are still evaluated, and the result is the same for every schedule
            if i % 4 == 1 {
                for (k, v) in [(3usize, 3e19f32), (77, f32::NAN), (200, -3e19), (n - 1, f32::INFINITY)] {
                    let len = flat_any(&ts[k]).len();
                    ts[k] = Tensor::single(vec![v; len]);
                }
            }
            many_jobs.push((spec, xs, ts));
        }
    }
    for (spec, xs, ts) in many_jobs.iter() {
        let run = |threads: usize, jitter: u64| -> Result<Vec<u32>, String> {
            let pool = rayon::ThreadPoolBuilder::new().num_threads(threads).build().map_err(|e| e.to_string())?;
            neurons::verif::set_jitter(jitter);
            let r = pool.install(|| {
                net::try_run(|| {
                    let mut n = net::build(spec).unwrap();
                    let xr: Vec<&Tensor> = xs.iter().collect();
                    let tr: Vec<&Tensor> = ts.iter().collect();
                    let (l, a) = n.validate(&xr, &tr, 0.1);
                    let preds = n.predict_batch(&xr);
                    let mut bits: Vec<u32> = vec![l.to_bits(), a.to_bits()];
                    for p in preds.iter() { for v in p.get_flat() { bits.push(v.to_bits()); } }
                    bits
                })
            });
            neurons::verif::set_jitter(0);
            r
        };
        let base = run(1, 0);
        for &t in &[2usize, 3, 5, 16] {
            for rep in 0..2u64 {
                let r = run(t, if rep == 0 { 0 } else { ctx.seed.wrapping_mul(131).wrapping_add(rep * 977 + t as u64) | 1 });
                evals += 1;
                let same = match (&base, &r) {
                    (Ok(a), Ok(b)) => a == b,
                    (Err(a), Err(b)) => a == b,
                    _ => false,
                };
                ctx.oracle(same, "schedule-dependent-result",
                    "training, validation and batched prediction must give bit-identical results for every number of worker threads and every schedule",
                    format!("validate / predict_batch of {} on {} samples, pool of {} threads, repetition {}", clip(&spec.token(), 600), xs.len(), t, rep),
                    "bit patterns differ from the single-thread run".into(), "bit-identical".into());
            }
        }
    }
    ctx.notes.push(format!("{} small dense networks x 321..1031 samples x pools [1,2,3,5,16]: validate and predict_batch compared bit for bit with the single-thread run", many_jobs.len()));
    ctx.direct_evals += evals;
    ctx.direct_distinct += evals;
    ctx.notes.push(format!("{} networks x data-set sizes {:?} x pools {:?} x {} repetitions (jitter on from the 2nd): learn (E=2, B=5, with validation), validate, predict_batch compared bit for bit with the single-thread run", jobs.len(), sizes, pools, reps));
}


/* ---------------------------------------------------------------------------------------------
 * C03: slot independence at the network level (metamorphic, on the implementation)
 *
 * `Network::update` hands every parameter tensor to the optimizer under its own slot
 * (layer, filter, bias).  Whatever the optimizer, the new value of one slot after any history of
 * steps may depend only on that slot's own values and gradients: running the same history with the
 * gradients of all *other* slots changed must leave this slot's parameters bit-identical.
 * ------------------------------------------------------------------------------------------ */

#[derive(Clone, Copy, PartialEq)]
enum SlotKind { Weights, Bias, Filter(usize) }

fn scale_tensor(t: &mut Tensor, keep_filter: Option<usize>, factor: f32) {
    match &mut t.data {
        Data::Single(v) => for x in v.iter_mut() { *x *= factor; },
        Data::Double(m) => for r in m.iter_mut() { for x in r.iter_mut() { *x *= factor; } },
        Data::Triple(m) => for a in m.iter_mut() { for r in a.iter_mut() { for x in r.iter_mut() { *x *= factor; } } },
        Data::Quadruple(q) => for (f, k) in q.iter_mut().enumerate() {
            if Some(f) == keep_filter { continue; }
            for a in k.iter_mut() { for r in a.iter_mut() { for x in r.iter_mut() { *x *= factor; } } }
        },
        _ => {}
    }
}

pub fn direct_c03_slots(ctx: &mut Ctx) {
    use crate::gen::arch::{input_for, random_net, target_for, ArchCfg};
    use crate::gen::Gen;
    use crate::ops::scalar::OptSpec;
    let nets = ctx.n(6, 40);
    let opts: Vec<OptSpec> = vec![
        OptSpec::Sgdm(0.05, 0.9, 0.1, Some(0.01)),
        OptSpec::Adam(0.01, 0.9, 0.999, 1e-8, None),
        OptSpec::AdamW(0.01, 0.9, 0.999, 1e-8, 0.01),
        OptSpec::Rmsprop(0.01, 0.9, 1e-8, None, Some(0.5), true),
        OptSpec::Rmsprop(0.01, 0.9, 1e-8, Some(0.01), None, false),
    ];
    let mut jobs = Vec::new();
    {
        let mut g = Gen::new(ctx);
        // convolutions / deconvolutions with several filters, dense layers with and without bias, no feedback blocks
        let cfg = ArchCfg { final_dense: Some(3), min_layers: 2, max_layers: 4, max_dim: 4, ..ArchCfg::small() };
        let mut tries = 0;
        while jobs.len() < nets && tries < nets * 20 {
            tries += 1;
            let (spec, out) = random_net(&mut g, &cfg);
            if spec.builds.iter().any(|b| matches!(b, Build::Feedback { .. })) { continue; }
            // at least one spatial layer with >= 2 filters in every second job
            let multi = spec.builds.iter().any(|b| match b {
                Build::Layer(InnerSpec::Conv { filters, .. }) | Build::Layer(InnerSpec::Deconv { filters, .. }) => *filters >= 2,
                _ => false,
            });
            if jobs.len() % 2 == 0 && !multi { continue; }
            let samples: Vec<(Tensor, Tensor)> = (0..3).map(|_| (input_for(&mut g, &spec.input), target_for(&mut g, &out, &spec.obj))).collect();
            jobs.push((spec, samples));
        }
    }
    let mut evals = 0u64;
    for (ji, (spec0, samples)) in jobs.iter().enumerate() {
        let mut spec = spec0.clone();
        spec.opt = Some(opts[ji % opts.len()].clone());
        let res = net::try_run(|| {
            let base = net::build(&spec).unwrap();
            // one gradient set per step, all taken at the initial weights (any gradients of the right shapes do)
            let grads: Vec<(Vec<Tensor>, Vec<Option<Tensor>>)> = samples.iter().map(|(x, t)| {
                let (pre, act, maxp, fbs) = base.forward(x);
                let (_, g) = base.verif_objective(act.last().unwrap(), t);
                base.verif_backward(g, &pre, &act, &maxp, fbs)
            }).collect();
            // slots in `net_params` order, with their position in the (reversed) gradient vectors
            let nl = base.layers.len();
            let mut slots: Vec<(usize, SlotKind)> = Vec::new();
            for (li, l) in base.layers.iter().enumerate() {
                let gi = nl - 1 - li;
                match l {
                    Layer::Dense(d) => { slots.push((gi, SlotKind::Weights)); if d.verif_bias().is_some() { slots.push((gi, SlotKind::Bias)); } }
                    Layer::Convolution(c) => for f in 0..c.verif_kernels().len() { slots.push((gi, SlotKind::Filter(f))); },
                    Layer::Deconvolution(c) => for f in 0..c.verif_kernels().len() { slots.push((gi, SlotKind::Filter(f))); },
                    _ => {}
                }
            }
            let run = |keep: Option<(usize, SlotKind)>| -> Vec<Vec<f32>> {
                let mut n = net::build(&spec).unwrap();
                for (step, (wg, bg)) in grads.iter().enumerate() {
                    let mut wg = wg.clone();
                    let mut bg = bg.clone();
                    if let Some((kgi, kind)) = keep {
                        for (gi, w) in wg.iter_mut().enumerate() {
                            let keep_filter = if gi == kgi { match kind { SlotKind::Filter(f) => Some(f), _ => None } } else { None };
                            if gi == kgi && kind == SlotKind::Weights { continue; }
                            scale_tensor(w, keep_filter, 0.5);
                        }
                        for (gi, b) in bg.iter_mut().enumerate() {
                            if gi == kgi && kind == SlotKind::Bias { continue; }
                            if let Some(b) = b.as_mut() { scale_tensor(b, None, 0.5); }
                        }
                    }
                    n.verif_update(step as i32 + 1, wg, bg);
                }
                net_params(&n)
            };
            let full = run(None);
            let mut bad: Vec<String> = Vec::new();
            for (si, (gi, kind)) in slots.iter().enumerate() {
                let other = run(Some((*gi, *kind)));
                if si < full.len() && si < other.len() && !same_bits(&full[si], &other[si]) {
                    let what = match kind { SlotKind::Weights => "weights".to_string(), SlotKind::Bias => "bias".to_string(), SlotKind::Filter(f) => format!("filter {}", f) };
                    bad.push(format!("layer {} {}", nl - 1 - gi, what));
                }
            }
            (slots.len(), bad)
        });
        match res {
            Ok((n, bad)) => {
                evals += n as u64;
                ctx.oracle(bad.is_empty(), "slot-dependence",
                    "state kept for one parameter slot must never influence another slot: changing the gradients of all other slots must leave a slot's updated parameters bit-identical",
                    format!("{} (3 update steps through Network::update)", clip(&spec.token(), 700)),
                    format!("slots whose parameters changed when only other slots' gradients were halved: {:?}", bad), "none".into());
            }
            Err(_) => {}
        }
    }
    ctx.direct_evals += evals;
    ctx.direct_distinct += evals;
    ctx.notes.push(format!("{} networks x 5 stateful optimizers (round-robin): every parameter slot re-run with all other slots' gradients halved, 3 steps through Network::update, compared bit for bit", jobs.len()));
}
