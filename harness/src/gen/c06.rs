//! C06: objectives.

use super::*;

const OBJS: [&str; 7] = ["ae", "mae", "mse", "rmse", "ce", "bce", "kl"];

fn prob(g: &mut Gen, boundary: bool) -> f32 {
    if boundary {
        g.rng().pick(&[0.0f32, 1.0, 1e-7, 1.0 - 1e-7, 0.5, 1e-6, 0.999999])
    } else {
        g.rng().uniform(0.02, 0.98)
    }
}

fn pair(g: &mut Gen, o: &str, n: usize, boundary: bool) -> (Vec<f32>, Vec<f32>) {
    let probabilistic = matches!(o, "ce" | "bce" | "kl");
    let mut p = Vec::new();
    let mut t = Vec::new();
    for i in 0..n {
        if probabilistic {
            p.push(prob(g, boundary && i % 2 == 0));
            t.push(if boundary { g.rng().pick(&[0.0f32, 1.0, 0.5, 0.25]) } else { g.rng().uniform(0.02, 0.98) });
        } else {
            let a = g.rng().generic();
            t.push(a);
            // equal prediction and target in the boundary stream
            p.push(if boundary && i % 3 == 0 { a } else { g.rng().generic() });
        }
    }
    (p, t)
}

fn clamp_tok(c: Option<(f32, f32)>) -> String {
    match c {
        None => "none".into(),
        Some((lo, hi)) => format!("{} {}", hx(lo), hx(hi)),
    }
}

pub fn generate(g: &mut Gen) {
    let clamps: Vec<Option<(f32, f32)>> = vec![None, Some((-0.5, 0.5)), Some((-1.0, 1.0)), Some((0.1, 0.1)), Some((-1e-3, 2.0)),
        Some((-0.25, f32::INFINITY)), Some((f32::NEG_INFINITY, 0.25)), Some((f32::NEG_INFINITY, f32::INFINITY)), Some((0.0, 0.0))];
    // deterministic core: 7 objectives x 2 ranks x clamp on/off x interior/boundary
    for o in OBJS.iter() {
        for boundary in [false, true] {
            for (ci, c) in clamps.iter().enumerate() {
                for (ch, h, w) in [(1usize, 1usize, 1usize), (1, 1, 4), (2, 3, 2), (1, 2, 2)] {
                    if ci >= 2 && ch * h * w != 4 {
                        continue;
                    }
                    let n = ch * h * w;
                    let (p, t) = pair(g, o, n, boundary);
                    let label = format!("{}/{}/{}", o, if boundary { "boundary" } else { "interior" }, if c.is_some() { "clamp" } else { "noclamp" });
                    let (p1, t1) = (Tensor::single(p.clone()), Tensor::single(t.clone()));
                    g.push(format!("obj.loss {} {} {} {}", o, clamp_tok(*c), qt(&p1), qt(&t1)), Tol::Tight, &format!("{}/1d", label), n >= 2);
                    let to3 = |v: &Vec<f32>| Tensor::triple(v.chunks(h * w).map(|m| m.chunks(w).map(|r| r.to_vec()).collect()).collect());
                    g.push(format!("obj.loss {} {} {} {}", o, clamp_tok(*c), qt(&to3(&p)), qt(&to3(&t))), Tol::Tight, &format!("{}/3d", label), n >= 2);
                }
            }
        }
        // one-hot targets (exact zeros) — what classification uses
        let p = Tensor::single(vec![0.7, 0.2, 0.1]);
        let t = Tensor::single(vec![1.0, 0.0, 0.0]);
        g.push(format!("obj.loss {} none {} {}", o, qt(&p), qt(&t)), Tol::Tight, &format!("{}/one-hot", o), true);
        let p = Tensor::single(vec![1.0, 0.0, 0.0]);
        g.push(format!("obj.loss {} none {} {}", o, qt(&p), qt(&t)), Tol::Tight, &format!("{}/saturated", o), true);
        // mismatching ranks are refused
        let t3 = Tensor::triple(vec![vec![vec![1.0, 0.0, 0.0]]]);
        g.push(format!("obj.loss {} none {} {}", o, qt(&p), qt(&t3)), Tol::Tight, "rank-mismatch", true);
        // inverted clamp interval is refused
        g.push(format!("obj.loss {} {} {} {}", o, clamp_tok(Some((1.0, -1.0))), qt(&p), qt(&t)), Tol::Tight, "clamp/inverted", true);
    }
    // prediction and target one or two units in the last place apart, and tiny against zero: the sign rules of AE / MAE
    // (and the differences of MSE / RMSE) must not treat "almost equal" as equal
    for o in ["ae", "mae", "mse", "rmse"] {
        let t: Vec<f32> = vec![0.5, 1.0, 5e-8, -1e-30, 3.0, 0.0, f32::from_bits(1), 1.0];
        let p: Vec<f32> = vec![f32::from_bits(0.5f32.to_bits() + 1), f32::from_bits(1.0f32.to_bits() - 1), 0.0, 1e-30,
            f32::from_bits(3.0f32.to_bits() + 2), -0.0, 0.0, 1.0];
        for c in [None, Some((-0.5f32, 0.25f32))] {
            let (p1, t1) = (Tensor::single(p.clone()), Tensor::single(t.clone()));
            g.push(format!("obj.loss {} {} {} {}", o, clamp_tok(c), qt(&p1), qt(&t1)), Tol::Tight, &format!("{}/near-equal/1d", o), true);
            g.push(format!("obj.loss {} {} {} {}", o, clamp_tok(c), qt(&t1), qt(&p1)), Tol::Tight, &format!("{}/near-equal/1d-swapped", o), true);
            let to3 = |v: &Vec<f32>| Tensor::triple(v.chunks(4).map(|m| m.chunks(2).map(|r| r.to_vec()).collect()).collect());
            g.push(format!("obj.loss {} {} {} {}", o, clamp_tok(c), qt(&to3(&p)), qt(&to3(&t))), Tol::Tight, &format!("{}/near-equal/3d", o), true);
        }
    }
    // prediction and target identical in EVERY element (loss exactly 0) under clamp intervals that do and do not contain
    // zero: every gradient component is still the unclamped value limited to the interval
    for o in OBJS.iter() {
        let probabilistic = matches!(*o, "ce" | "bce" | "kl");
        let v: Vec<f32> = if probabilistic { vec![0.25, 0.5, 0.125, 0.125] } else { vec![0.75, -1.5, 0.0, 3.0] };
        for c in [None, Some((0.25f32, 0.75f32)), Some((-0.75, -0.25)), Some((-0.5, 0.5)), Some((0.0, 1.0)), Some((-1.0, 0.0))] {
            let t1 = Tensor::single(v.clone());
            g.push(format!("obj.loss {} {} {} {}", o, clamp_tok(c), qt(&t1), qt(&t1)), Tol::Tight, &format!("{}/identical-pair/1d", o), true);
            let t3 = Tensor::triple(vec![v.chunks(2).map(|r| r.to_vec()).collect()]);
            g.push(format!("obj.loss {} {} {} {}", o, clamp_tok(c), qt(&t3), qt(&t3)), Tol::Tight, &format!("{}/identical-pair/3d", o), true);
        }
    }
    // PART of the prediction fitted exactly (a whole channel, a whole row, a single element equal to its target) in tensors
    // whose height and width differ: the gradient still has the prediction's shape, the fitted part gets the documented
    // value for a zero difference
    for o in OBJS.iter() {
        let probabilistic = matches!(*o, "ce" | "bce" | "kl");
        for (ch, h, w) in [(2usize, 2usize, 3usize), (2, 3, 2), (3, 1, 4), (1, 2, 5)] {
            for part in 0..4usize {
                let n = ch * h * w;
                let (mut p, t) = pair(g, o, n, false);
                if probabilistic && part == 3 { continue; }
                match part {
                    0 => for i in 0..h * w { p[i] = t[i]; },                          // the first channel
                    1 => for i in (ch - 1) * h * w..n { p[i] = t[i]; },               // the last channel
                    2 => for i in 0..w { p[(ch - 1) * h * w + (h - 1) * w + i] = t[(ch - 1) * h * w + (h - 1) * w + i]; }, // the last row
                    _ => { p[n / 2] = t[n / 2]; }
                }
                let to3 = |v: &Vec<f32>| Tensor::triple(v.chunks(h * w).map(|m| m.chunks(w).map(|r| r.to_vec()).collect()).collect());
                for c in [None, Some((-0.05f32, 0.1f32))] {
                    if c.is_some() && part % 2 == 1 { continue; }
                    g.push(format!("obj.loss {} {} {} {}", o, clamp_tok(c), qt(&to3(&p)), qt(&to3(&t))), Tol::Tight, &format!("{}/partly-fitted/{}x{}x{}", o, ch, h, w), true);
                }
                g.push(format!("obj.loss {} none {} {}", o, qt(&Tensor::single(p.clone())), qt(&Tensor::single(t.clone()))), Tol::Tight, &format!("{}/partly-fitted/1d", o), true);
            }
        }
    }
    // large operands a small distance apart (the loss is small against the operands: computed from the differences,
    // it is accurate relative to ITSELF)
    for o in ["ae", "mae", "mse", "rmse"] {
        for base in [4096.0f32, 1.0e4, 3.0e5, 1.0] {
            let t: Vec<f32> = (0..6).map(|i| base + (i as f32) * base / 64.0).collect();
            let p: Vec<f32> = t.iter().enumerate().map(|(i, v)| v + [0.25f32, -0.5, 0.125, 0.0, 1.0, -0.25][i] * (base / 4096.0).max(2.0f32.powi(-10))).collect();
            for c in [None, Some((-0.5f32, 0.25f32))] {
                let (p1, t1) = (Tensor::single(p.clone()), Tensor::single(t.clone()));
                g.push(format!("obj.loss {} {} {} {}", o, clamp_tok(c), qt(&p1), qt(&t1)), Tol::Tight, &format!("{}/large-near-equal/1d", o), true);
                let to3 = |v: &Vec<f32>| Tensor::triple(vec![v.chunks(3).map(|r| r.to_vec()).collect()]);
                g.push(format!("obj.loss {} {} {} {}", o, clamp_tok(c), qt(&to3(&p)), qt(&to3(&t))), Tol::Tight, &format!("{}/large-near-equal/3d", o), true);
            }
        }
    }
    // tiny (but non-zero) targets of the probabilistic objectives: below, at and just above the clamping epsilon, subnormal
    // — a zero-target rule applies to targets that ARE zero only; all-tiny vectors make the tiny terms the whole loss
    for o in ["kl", "bce", "ce"] {
        let below = f32::from_bits(1e-6f32.to_bits() - 1);
        let above = f32::from_bits(1e-6f32.to_bits() + 1);
        let ts: Vec<Vec<f32>> = vec![vec![5e-7, 3e-7, 9e-7, 1e-7], vec![below, 1e-6, above, 2e-6], vec![1e-40, 3e-42, 1e-38, 1e-20],
            vec![5e-7, 0.0, 0.25, 1e-7], vec![1e-10, 1e-8, 1e-12, 9.9e-7]];
        for t in ts.iter() {
            let p: Vec<f32> = (0..4).map(|_| g.rng().uniform(0.05, 0.95)).collect();
            for c in [None, Some((-0.5f32, 0.5f32))] {
                let (p1, t1) = (Tensor::single(p.clone()), Tensor::single(t.clone()));
                g.push(format!("obj.loss {} {} {} {}", o, clamp_tok(c), qt(&p1), qt(&t1)), Tol::Tight, &format!("{}/tiny-targets/1d", o), true);
                let to3 = |v: &Vec<f32>| Tensor::triple(vec![v.chunks(2).map(|r| r.to_vec()).collect()]);
                g.push(format!("obj.loss {} {} {} {}", o, clamp_tok(c), qt(&to3(&p)), qt(&to3(t))), Tol::Tight, &format!("{}/tiny-targets/3d", o), true);
            }
        }
    }
    // ONE objective value evaluated on pairs of different sizes and ranks in a row: nothing is remembered between calls
    for o in OBJS.iter() {
        for c in [None, Some((-0.1f32, 0.1f32))] {
            let sizes: [(usize, usize, usize); 5] = [(1, 1, 4), (1, 1, 2), (2, 1, 3), (1, 2, 2), (1, 1, 6)];
            let mut toks = Vec::new();
            for (i, (ch, h, w)) in sizes.iter().enumerate() {
                let n = ch * h * w;
                let (p, t) = pair(g, o, n, false);
                if i % 2 == 0 {
                    toks.push(format!("{} {}", qt(&Tensor::single(p)), qt(&Tensor::single(t))));
                } else {
                    let to3 = |v: &Vec<f32>| Tensor::triple(v.chunks(h * w).map(|m| m.chunks(*w).map(|r| r.to_vec()).collect()).collect());
                    toks.push(format!("{} {}", qt(&to3(&p)), qt(&to3(&t))));
                }
            }
            g.push(format!("obj.seq {} {} {} {}", o, clamp_tok(c), sizes.len(), toks.join(" ")), Tol::Tight, &format!("{}/several-pairs-one-objective", o), true);
        }
    }
    // the objective configured through the network, twice in a row: the second configuration decides alone (no clamp,
    // objective or interval carried over from the first)
    for (i, o) in OBJS.iter().enumerate() {
        let o1 = OBJS[(i + 3) % OBJS.len()];
        let (p, t) = pair(g, o, 4, false);
        let (p1, t1) = (Tensor::single(p.clone()), Tensor::single(t.clone()));
        for (c1, c2) in [(Some((-0.01f32, 0.01f32)), None), (None, Some((-0.5f32, 0.5f32))), (Some((-0.01, 0.01)), Some((-0.5, 0.5))), (Some((0.3, 0.3)), None)] {
            g.push(format!("obj.reset {} {} {} {} {} {}", o1, clamp_tok(c1), o, clamp_tok(c2), qt(&p1), qt(&t1)), Tol::Tight, &format!("{}/reconfigured", o), true);
        }
    }
    // seeded random stream
    for _ in 0..g.n(400, 12000) {
        let o = g.rng().pick(&OBJS);
        let n = g.rng().range(1, 8);
        let boundary = g.rng().below(3) == 0;
        let (p, t) = pair(g, o, n, boundary);
        let c = if g.rng().coin() {
            None
        } else {
            let a = g.rng().uniform(-2.0, 1.0);
            Some((a, a + g.rng().uniform(0.0, 3.0)))
        };
        let label = format!("random/{}/{}", o, if boundary { "boundary" } else { "interior" });
        if g.rng().coin() || n < 2 {
            g.push(format!("obj.loss {} {} {} {}", o, clamp_tok(c), qt(&Tensor::single(p)), qt(&Tensor::single(t))), Tol::Tight, &label, true);
        } else {
            let w = (1..=n).filter(|d| n % d == 0).nth(1).unwrap_or(1);
            let to3 = |v: &Vec<f32>| Tensor::triple(vec![v.chunks(w).map(|r| r.to_vec()).collect()]);
            g.push(format!("obj.loss {} {} {} {}", o, clamp_tok(c), qt(&to3(&p)), qt(&to3(&t))), Tol::Tight, &label, true);
        }
    }
}
