//! C03: optimizer histories through create -> validate -> update.

use super::*;
use crate::ops::scalar::OptSpec;

fn specs_core() -> Vec<OptSpec> {
    let mut v = vec![
        OptSpec::Sgd(0.1, None),
        OptSpec::Sgd(0.05, Some(0.01)),
        OptSpec::Sgd(0.0, None), // default substitution
        OptSpec::Sgdm(0.1, 0.9, 0.0, None),
        OptSpec::Sgdm(0.05, 0.8, 0.1, Some(0.01)),
        OptSpec::Sgdm(0.0, 0.0, 0.0, None),
        OptSpec::Adam(0.001, 0.9, 0.999, 1e-8, None),
        OptSpec::Adam(0.01, 0.8, 0.9, 1e-6, Some(0.01)),
        OptSpec::Adam(0.0, 0.0, 0.0, 0.0, None),
        OptSpec::AdamW(0.001, 0.9, 0.999, 1e-8, 0.01),
        OptSpec::AdamW(0.0, 0.0, 0.0, 0.0, 0.1),
    ];
    for centered in [false, true] {
        for mom in [None, Some(0.9f32)] {
            for decay in [None, Some(0.01f32)] {
                v.push(OptSpec::Rmsprop(0.01, 0.9, 1e-8, decay, mom, centered));
            }
        }
    }
    v.push(OptSpec::Rmsprop(0.0, 0.0, 0.0, None, None, false));
    // ONE hyper-parameter left at 0 ("use the documented default") at a time, with a step size large enough for a wrong
    // default to show within a few steps
    v.push(OptSpec::Sgdm(0.05, 0.0, 0.0, None));
    v.push(OptSpec::Adam(0.05, 0.0, 0.999, 1e-8, None));
    v.push(OptSpec::Adam(0.05, 0.9, 0.0, 1e-8, None));
    v.push(OptSpec::Adam(0.05, 0.9, 0.999, 0.0, None));
    v.push(OptSpec::AdamW(0.05, 0.0, 0.999, 1e-8, 0.01));
    v.push(OptSpec::AdamW(0.05, 0.9, 0.0, 1e-8, 0.01));
    v.push(OptSpec::AdamW(0.05, 0.9, 0.999, 0.0, 0.01));
    v.push(OptSpec::AdamW(0.05, 0.9, 0.999, 1e-8, 0.0));
    v.push(OptSpec::Rmsprop(0.05, 0.0, 1e-8, None, None, false));
    v.push(OptSpec::Rmsprop(0.05, 0.9, 0.0, None, Some(0.5), true));
    v
}

fn table_tok(params: &Vec<Vec<Vec<Tensor>>>) -> String {
    let mut s = format!("{}", params.len());
    for l in params {
        s.push_str(&format!(" {}", l.len()));
        for f in l {
            s.push_str(&format!(" {}", f.len()));
            for t in f {
                s.push(' ');
                s.push_str(&qt(t));
            }
        }
    }
    s
}

fn history(g: &mut Gen, spec: &OptSpec, params: Vec<Vec<Vec<Tensor>>>, nsteps: usize, label: &str, pattern: usize) {
    // all addressable slots
    let mut slots = Vec::new();
    for (l, layer) in params.iter().enumerate() {
        for (f, filt) in layer.iter().enumerate() {
            for b in 0..filt.len() {
                slots.push((l, f, b));
            }
        }
    }
    let mut counters = vec![0i32; slots.len()];
    let mut steps = Vec::new();
    for i in 0..nsteps {
        let si = g.rng().below(slots.len());
        let (l, f, b) = slots[si];
        counters[si] += 1;
        // step numbers: usually the per-slot counter (an epoch index), sometimes repeated or jumping
        let stepnr = match g.rng().below(6) {
            0 => 1,
            1 => counters[si] + 3,
            _ => counters[si],
        };
        let shape = params[l][f][b].shape.clone();
        let mut grad = g.tensor_of(&shape, false);
        let scale = match pattern {
            0 => 1.0,                                   // random
            1 => if i % 2 == 0 { 1.0 } else { -1.0 },  // sign flipping (applied to |g| below)
            2 => 1e-6,                                  // tiny
            6 => 1e-10,                                 // minute (against a subnormal / tiny epsilon)
            3 => 300.0,                                 // large
            _ => 0.0,                                   // sparse: mostly zero
        };
        let map = |x: f32| match pattern {
            1 => x.abs() * scale,
            4 => if i % 3 == 0 { x } else { 0.0 },
            5 => 0.3, // constant
            _ => x * scale,
        };
        match &mut grad.data {
            Data::Single(v) => v.iter_mut().for_each(|x| *x = map(*x)),
            Data::Double(v) => v.iter_mut().flatten().for_each(|x| *x = map(*x)),
            Data::Triple(v) => v.iter_mut().flatten().flatten().for_each(|x| *x = map(*x)),
            _ => (),
        }
        steps.push(format!("{} {} {} {} {}", l, f, b, stepnr, qt(&grad)));
    }
    g.push(format!("opt.run {} {} {} {}", spec.token(), table_tok(&params), nsteps, steps.join(" ")), Tol::Tight, label, true);
}

fn params_for(g: &mut Gen, kind: usize) -> Vec<Vec<Vec<Tensor>>> {
    match kind {
        // one dense-like layer: matrix + bias vector
        0 => vec![vec![vec![g.tensor_of(&Shape::Double(2, 3), false), g.tensor_of(&Shape::Single(2), false)]]],
        // one conv-like layer: two 3-D filters, no bias
        1 => vec![vec![vec![g.tensor_of(&Shape::Triple(1, 2, 2), false)], vec![g.tensor_of(&Shape::Triple(1, 2, 2), false)]]],
        // mixed: conv layer (2 filters), dense layer (matrix + bias), dense without bias
        _ => vec![
            vec![vec![g.tensor_of(&Shape::Triple(2, 2, 1), false)], vec![g.tensor_of(&Shape::Triple(2, 2, 1), false)]],
            vec![vec![g.tensor_of(&Shape::Double(3, 2), false), g.tensor_of(&Shape::Single(3), false)]],
            vec![vec![g.tensor_of(&Shape::Double(1, 3), false)]],
        ],
    }
}

pub fn generate(g: &mut Gen) {
    // deterministic core: every optimizer x option combination x rank mix x gradient pattern
    for spec in specs_core() {
        for kind in 0..3 {
            for pattern in [0usize, 1, 5] {
                let params = params_for(g, kind);
                let n = g.n(12, 40);
                history(g, &spec, params, n, &format!("{}/table{}/pattern{}", spec.kind(), kind, pattern), pattern);
            }
        }
        for pattern in [2usize, 3, 4] {
            let params = params_for(g, 2);
            history(g, &spec, params, 10, &format!("{}/table2/pattern{}", spec.kind(), pattern), pattern);
        }
    }
    // hyper-parameters at the edge of the number range: a subnormal, a tiny and a large epsilon are used as given (only
    // an epsilon of exactly zero means "default"); minute and ordinary gradients
    for eps in [1e-40f32, f32::from_bits(1), 1e-30, 10.0] {
        for spec in [OptSpec::Adam(0.01, 0.9, 0.999, eps, None), OptSpec::AdamW(0.01, 0.9, 0.999, eps, 0.01),
                     OptSpec::Rmsprop(0.01, 0.9, eps, None, None, false), OptSpec::Rmsprop(0.01, 0.9, eps, None, Some(0.5), true)] {
            for pattern in [6usize, 0] {
                let params = params_for(g, 2);
                history(g, &spec, params, 8, &format!("{}/epsilon-scale/pattern{}", spec.kind(), pattern), pattern);
            }
        }
    }
    // long constant / near-constant histories on one slot: the centred variance is a difference of
    // nearly equal numbers there
    for (alpha, gval, n) in [(0.5f32, 0.3f32, 30usize), (0.9, 1832.4943, 140), (0.99, 2.5, 60)] {
        for mom in [None, Some(0.9f32)] {
            let spec = OptSpec::Rmsprop(0.01, alpha, 1e-8, None, mom, true);
            let w = Tensor::single(vec![0.5, -0.25]);
            let steps: Vec<String> = (0..n).map(|i| format!("0 0 0 {} {}", i + 1, qt(&Tensor::single(vec![gval, -gval])))).collect();
            g.push(format!("opt.run {} 1 1 1 {} {} {}", spec.token(), qt(&w), n, steps.join(" ")), Tol::Tight, "rmsprop/centred/constant-gradient", true);
        }
    }
    // long histories on one slot with consecutive step numbers: the bias corrections 1 - beta^t of Adam / AdamW keep
    // their documented form at every t (beta1^t and beta2^t fall below the rounding unit at very different t)
    for (b1, b2, n) in [(0.9f32, 0.999f32, 200usize), (0.5, 0.999, 40), (0.0, 0.0, 180), (0.9, 0.9, 170), (0.3, 0.99, 30)] {
        for (si, spec) in [OptSpec::Adam(0.01, b1, b2, 1e-8, None), OptSpec::AdamW(0.01, b1, b2, 1e-8, 0.01), OptSpec::Adam(0.01, b1, b2, 1e-8, Some(0.01))].iter().enumerate() {
            if !g.ctx.thorough() && si == 2 && n > 100 { continue; }
            let w = Tensor::single(vec![0.5, -0.25, 0.125]);
            let steps: Vec<String> = (0..n).map(|i| {
                let gr: Vec<f32> = (0..3).map(|_| g.rng().uniform(-1.0, 1.0)).collect();
                format!("0 0 0 {} {}", i + 1, qt(&Tensor::single(gr)))
            }).collect();
            g.push(format!("opt.run {} 1 1 1 {} {} {}", spec.token(), qt(&w), n, steps.join(" ")), Tol::Tight, &format!("{}/long-history", spec.kind()), true);
        }
    }
    // gradients that are EXACTLY zero for the first steps of a slot and non-zero afterwards (state that is still exactly zero
    // is not "unset"): momentum with dampening, Adam, RMSprop with momentum; one slot of every rank
    for spec in [OptSpec::Sgdm(0.1, 0.9, 0.5, None), OptSpec::Sgdm(0.05, 0.5, 0.25, None), OptSpec::Adam(0.01, 0.9, 0.999, 1e-8, None),
                 OptSpec::Rmsprop(0.01, 0.9, 1e-8, None, Some(0.5), true), OptSpec::Rmsprop(0.01, 0.9, 1e-8, None, Some(0.9), false)] {
        for (ri, sh) in [Shape::Single(3), Shape::Double(1, 3), Shape::Triple(1, 1, 3)].iter().enumerate() {
            let w = g.tensor_of(sh, false);
            let hist: [[f32; 3]; 5] = [[0.3, 0.0, 0.0], [-0.2, 0.0, 0.5], [0.1, 0.8, 0.0], [0.4, -0.2, 0.0], [0.0, 0.0, 0.7]];
            let steps: Vec<String> = hist.iter().enumerate().map(|(i, h)| {
                let gr = match sh { Shape::Single(_) => Tensor::single(h.to_vec()), Shape::Double(..) => Tensor::double(vec![h.to_vec()]), _ => Tensor::triple(vec![vec![h.to_vec()]]) };
                format!("0 0 0 {} {}", i + 1, qt(&gr))
            }).collect();
            g.push(format!("opt.run {} 1 1 1 {} {} {}", spec.token(), qt(&w), hist.len(), steps.join(" ")), Tol::Tight, &format!("{}/zero-then-non-zero/rank{}", spec.kind(), ri + 1), true);
        }
    }
    // the optimizer as the NETWORK attaches it (set_optimizer -> every layer and every feedback block receive the configured
    // instance): one-repetition blocks train like their layers, blocks and plain layers follow the configured rule
    {
        use crate::ops::net::{Build, InnerSpec, NetSpec};
        let opts = [OptSpec::Sgd(0.01, Some(0.5)), OptSpec::Sgd(0.25, None), OptSpec::Sgdm(0.05, 0.9, 0.1, None), OptSpec::Adam(0.01, 0.9, 0.999, 1e-8, Some(0.01)),
            OptSpec::AdamW(0.01, 0.9, 0.999, 1e-8, 0.05), OptSpec::Rmsprop(0.01, 0.9, 1e-8, None, Some(0.5), true)];
        for o in opts.iter() {
            for loops in [1usize, 2] {
                let w = |g: &mut Gen, r: usize, c: usize| g.tensor_of(&Shape::Double(r, c), false);
                let inner = InnerSpec::Dense { out: 3, act: "tanh".into(), bias: true, dropout: None, w: w(g, 3, 3), b: Some(g.tensor_of(&Shape::Single(3), false)) };
                let head = InnerSpec::Dense { out: 2, act: "linear".into(), bias: true, dropout: None, w: w(g, 2, 3), b: Some(g.tensor_of(&Shape::Single(2), false)) };
                let net = NetSpec { input: Shape::Single(3), builds: vec![Build::Feedback { inner: vec![inner], loops, inskips: false, outskips: false, acc: "mean".into() }, Build::Layer(head)],
                    skipacc: "add".into(), loopacc: "mean".into(), opt: Some(o.clone()), obj: "mse".into(), clamp: None };
                let s: Vec<String> = (0..3).map(|_| format!("{} {}", qt(&g.tensor_of(&Shape::Single(3), false)), qt(&g.tensor_of(&Shape::Single(2), false)))).collect();
                g.push(format!("net {} learn 3 {} 0 2 3 0", net.token(), s.join(" ")), Tol::Loose, &format!("network/{}/block-x{}", o.kind(), loops), true);
            }
        }
    }
    // … and convolutions / deconvolutions with rectangular kernels (one row, one column, 2x3), top level and inside a block:
    // the state kept for a kernel has the kernel's extents
    {
        use crate::ops::net::{Build, InnerSpec, NetSpec};
        let opts = [OptSpec::Sgd(0.05, Some(0.01)), OptSpec::Sgdm(0.05, 0.9, 0.1, None), OptSpec::Adam(0.01, 0.9, 0.999, 1e-8, None),
            OptSpec::AdamW(0.01, 0.9, 0.999, 1e-8, 0.05), OptSpec::Rmsprop(0.01, 0.9, 1e-8, Some(0.01), Some(0.5), true)];
        for (oi, o) in opts.iter().enumerate() {
            for (ki, (k, p_)) in [((1usize, 3usize), (0usize, 1usize)), ((3, 1), (1, 0)), ((2, 3), (0, 1))].iter().enumerate() {
                if !g.ctx.thorough() && (oi + ki) % 2 == 1 { continue; }
                let (h, w) = (4usize, 5usize);
                let oh = h + 2 * p_.0 - k.0 + 1;
                let ow = w + 2 * p_.1 - k.1 + 1;
                let conv = InnerSpec::Conv { filters: 2, act: "tanh".into(), k: *k, s: (1, 1), p: *p_, d: (1, 1), dropout: None, ks: (0..2).map(|_| g.tensor_of(&Shape::Triple(1, k.0, k.1), false)).collect() };
                let dh = oh - 2 * p_.0 + k.0 - 1;
                let dw = ow - 2 * p_.1 + k.1 - 1;
                let deconv = InnerSpec::Deconv { filters: 1, act: "tanh".into(), k: *k, s: (1, 1), p: *p_, dropout: None, ks: vec![g.tensor_of(&Shape::Triple(2, k.0, k.1), false)] };
                let head = InnerSpec::Dense { out: 2, act: "linear".into(), bias: true, dropout: None, w: g.tensor_of(&Shape::Double(2, dh * dw), false), b: Some(g.tensor_of(&Shape::Single(2), false)) };
                let net = NetSpec { input: Shape::Triple(1, h, w), builds: vec![Build::Layer(conv), Build::Layer(deconv), Build::Layer(head)],
                    skipacc: "add".into(), loopacc: "mean".into(), opt: Some(o.clone()), obj: "mse".into(), clamp: None };
                let s: Vec<String> = (0..3).map(|_| format!("{} {}", qt(&g.tensor_of(&Shape::Triple(1, h, w), false)), qt(&g.tensor_of(&Shape::Single(2), false)))).collect();
                g.push(format!("net {} learn 3 {} 0 2 2 0", net.token(), s.join(" ")), Tol::Loose, &format!("network/{}/rectangular-kernels", o.kind()), true);
                // the same kernels inside a shape-preserving block (only 'same' geometry keeps the shape)
                if k.0 % 2 == 1 && k.1 % 2 == 1 {
                    let same = InnerSpec::Conv { filters: 1, act: "tanh".into(), k: *k, s: (1, 1), p: ((k.0 - 1) / 2, (k.1 - 1) / 2), d: (1, 1), dropout: None, ks: vec![g.tensor_of(&Shape::Triple(1, k.0, k.1), false)] };
                    let head2 = InnerSpec::Dense { out: 2, act: "linear".into(), bias: true, dropout: None, w: g.tensor_of(&Shape::Double(2, h * w), false), b: Some(g.tensor_of(&Shape::Single(2), false)) };
                    let netb = NetSpec { input: Shape::Triple(1, h, w), builds: vec![Build::Feedback { inner: vec![same], loops: 2, inskips: false, outskips: false, acc: "mean".into() }, Build::Layer(head2)],
                        skipacc: "add".into(), loopacc: "mean".into(), opt: Some(o.clone()), obj: "mse".into(), clamp: None };
                    g.push(format!("net {} learn 3 {} 0 2 2 0", netb.token(), s.join(" ")), Tol::Loose, &format!("network/{}/rectangular-kernels/block", o.kind()), true);
                }
            }
        }
    }
    // out-of-range slot: refused
    let p = params_for(g, 0);
    let grad = g.tensor_of(&Shape::Double(2, 3), false);
    g.push(format!("opt.run {} {} 1 3 0 0 1 {}", OptSpec::Adam(0.001, 0.9, 0.999, 1e-8, None).token(), table_tok(&p), qt(&grad)), Tol::Tight, "bad-slot", true);
    // seeded random stream: random hyper-parameters in their valid ranges
    for _ in 0..g.n(60, 1500) {
        let lr = g.rng().uniform(0.001, 0.2);
        let b1 = g.rng().uniform(0.5, 0.95);
        let b2 = g.rng().uniform(0.8, 0.999);
        let decay = if g.rng().coin() { Some(g.rng().uniform(0.0, 0.05)) } else { None };
        let spec = match g.rng().below(5) {
            0 => OptSpec::Sgd(lr, decay),
            1 => OptSpec::Sgdm(lr, b1, g.rng().uniform(0.0, 0.5), decay),
            2 => OptSpec::Adam(lr, b1, b2, 1e-8, decay),
            3 => OptSpec::AdamW(lr, b1, b2, 1e-8, g.rng().uniform(0.0, 0.1)),
            _ => OptSpec::Rmsprop(lr, b2, 1e-8, decay, if g.rng().coin() { Some(b1) } else { None }, g.rng().coin()),
        };
        let kind = g.rng().below(3);
        let params = params_for(g, kind);
        let hi = g.n(30, 50);
        let n = g.rng().range(1, hi);
        let pattern = g.rng().below(6);
        history(g, &spec, params, n, &format!("random/{}", spec.kind()), pattern);
    }
}
