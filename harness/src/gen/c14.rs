//! C14: reshape / flatten / get_flat / get_triple.

use super::*;

fn all_triples(max: usize) -> Vec<(usize, usize, usize)> {
    let mut v = Vec::new();
    for c in 1..=max {
        for h in 1..=max {
            for w in 1..=max {
                v.push((c, h, w));
            }
        }
    }
    v
}

pub fn generate(g: &mut Gen) {
    let max = g.n(3, 4);
    let triples = all_triples(max);
    // deterministic core: every 3-D shape with dims <= max: flatten, get_flat, and reshape to every 3-D
    // shape / vector with the same count and to a few with a different count; all six reshape arms.
    for &(c, h, w) in &triples {
        let s = Shape::Triple(c, h, w);
        let t = g.tensor_of(&s, false);
        let nt = nontrivial_tensor(&t);
        g.push(format!("t.flatten {}", qt(&t)), Tol::Exact, "flatten/3d", nt);
        g.push(format!("t.getflat {}", qt(&t)), Tol::Exact, "getflat/3d", nt);
        let n = c * h * w;
        for &(c2, h2, w2) in &triples {
            let n2 = c2 * h2 * w2;
            if n2 == n {
                g.push(format!("t.reshape {} T {} {} {}", qt(&t), c2, h2, w2), Tol::Exact, "reshape/3d->3d/equal", nt);
            } else if ((n2 == n + 1 || n2 + 1 == n || n2 == 2 * n) && (c + h + w + c2 + h2 + w2) % 3 == 0)
                || ((c == c2) as u8 + (h == h2) as u8 + (w == w2) as u8 == 2) {
                // (… and every target that differs from the source in exactly one extent)
                g.push(format!("t.reshape {} T {} {} {}", qt(&t), c2, h2, w2), Tol::Exact, "reshape/3d->3d/unequal", true);
            }
        }
        g.push(format!("t.reshape {} S {}", qt(&t), n), Tol::Exact, "reshape/3d->vec/equal", nt);
        g.push(format!("t.reshape {} S {}", qt(&t), n + 1), Tol::Exact, "reshape/3d->vec/unequal", true);
        // vector -> 3-D
        let v = g.tensor_of(&Shape::Single(n), false);
        let ntv = nontrivial_tensor(&v);
        g.push(format!("t.reshape {} T {} {} {}", qt(&v), c, h, w), Tol::Exact, "reshape/vec->3d/equal", ntv);
        g.push(format!("t.gettriple {} T {} {} {}", qt(&v), c, h, w), Tol::Exact, "gettriple/vec", ntv);
        g.push(format!("t.gettriple {} T {} {} {}", qt(&t), c, h, w), Tol::Exact, "gettriple/3d", nt);
        let v2 = g.tensor_of(&Shape::Single(n + 2), false);
        g.push(format!("t.reshape {} T {} {} {}", qt(&v2), c, h, w), Tol::Exact, "reshape/vec->3d/unequal", true);
        if n >= 2 {
            let v3 = g.tensor_of(&Shape::Single(n - 1), false);
            g.push(format!("t.reshape {} T {} {} {}", qt(&v3), c, h, w), Tol::Exact, "reshape/vec->3d/unequal", true);
            g.push(format!("t.gettriple {} T {} {} {}", qt(&v3), c, h, w), Tol::Exact, "gettriple/vec/short", true);
        }
    }
    // contents that are nearly constant (neighbours a few 1e-6 apart, tiny values of both signs), exactly constant, sorted:
    // every element is carried over as it is, through every arm
    for (c, h, w) in [(1usize, 2usize, 3usize), (2, 2, 2), (1, 1, 6), (3, 2, 1), (2, 3, 4)] {
        let n = c * h * w;
        let ramps: Vec<Vec<f32>> = vec![(0..n).map(|i| 5e-6 * i as f32).collect(), (0..n).map(|i| 1.0 + 3e-6 * i as f32).collect(),
            (0..n).map(|i| if i % 2 == 0 { 1e-7 } else { -4e-7 } * (1 + i) as f32).collect(), vec![0.25; n], (0..n).map(|i| i as f32).collect(),
            (0..n).map(|i| (n - i) as f32 * 1e-6).collect()];
        for v in ramps {
            let flat = Tensor::single(v.clone());
            let t3 = Tensor::triple(v.chunks(h * w).map(|m| m.chunks(w).map(|r| r.to_vec()).collect()).collect());
            g.push(format!("t.reshape {} T {} {} {}", qt(&flat), c, h, w), Tol::Exact, "reshape/vec->3d/near-constant", true);
            g.push(format!("t.gettriple {} T {} {} {}", qt(&flat), c, h, w), Tol::Exact, "gettriple/vec/near-constant", true);
            g.push(format!("t.reshape {} S {}", qt(&t3), n), Tol::Exact, "reshape/3d->vec/near-constant", true);
            g.push(format!("t.reshape {} T {} {} {}", qt(&t3), w, h, c), Tol::Exact, "reshape/3d->3d/near-constant", true);
            g.push(format!("t.flatten {}", qt(&t3)), Tol::Exact, "flatten/near-constant", true);
            g.push(format!("t.getflat {}", qt(&t3)), Tol::Exact, "getflat/near-constant", true);
        }
    }
    // vector -> vector (identity arm), unsupported arms
    for n in 1..=4 {
        let v = g.tensor_of(&Shape::Single(n), false);
        g.push(format!("t.reshape {} S {}", qt(&v), n), Tol::Exact, "reshape/vec->vec", n >= 2);
        g.push(format!("t.reshape {} S {}", qt(&v), n + 1), Tol::Exact, "reshape/vec->vec", n >= 2);
        g.push(format!("t.flatten {}", qt(&v)), Tol::Exact, "flatten/vec", n >= 2);
        g.push(format!("t.getflat {}", qt(&v)), Tol::Exact, "getflat/vec", n >= 2);
        g.push(format!("t.reshape {} D 1 {}", qt(&v), n), Tol::Exact, "reshape/unsupported", true);
    }
    let d = g.tensor_of(&Shape::Double(2, 3), false);
    g.push(format!("t.reshape {} S 6", qt(&d)), Tol::Exact, "reshape/unsupported", true);
    g.push(format!("t.flatten {}", qt(&d)), Tol::Exact, "flatten/unsupported", true);
    g.push(format!("t.getflat {}", qt(&d)), Tol::Exact, "getflat/unsupported", true);
    let q = g.tensor_of(&Shape::Quadruple(2, 1, 2, 2), false);
    g.push(format!("t.flatten {}", qt(&q)), Tol::Exact, "flatten/unsupported", true);

    // seeded random stream: larger shapes, special values
    for _ in 0..g.n(150, 3000) {
        let (c, h, w) = (g.rng().range(1, 6), g.rng().range(1, 6), g.rng().range(1, 6));
        let t = g.tensor_of(&Shape::Triple(c, h, w), true);
        let n = c * h * w;
        // a random factorisation of n (or a near miss)
        let target = if g.rng().below(4) == 0 { n + g.rng().range(1, 3) } else { n };
        let divs: Vec<usize> = (1..=target).filter(|d| target % d == 0).collect();
        let c2 = g.rng().pick(&divs);
        let rest = target / c2;
        let divs2: Vec<usize> = (1..=rest).filter(|d| rest % d == 0).collect();
        let h2 = g.rng().pick(&divs2);
        let w2 = rest / h2;
        let label = if target == n { "random/reshape/equal" } else { "random/reshape/unequal" };
        match g.rng().below(3) {
            0 => g.push(format!("t.reshape {} T {} {} {}", qt(&t), c2, h2, w2), Tol::Exact, label, true),
            1 => {
                let v = g.tensor_of(&Shape::Single(n), true);
                g.push(format!("t.reshape {} T {} {} {}", qt(&v), c2, h2, w2), Tol::Exact, label, true)
            }
            _ => g.push(format!("t.reshape {} S {}", qt(&t), target), Tol::Exact, label, true),
        }
    }
}
