//! Request generators, one module per property: a deterministic coverage core (independent of the
//! seed) followed by the seeded random stream.

pub mod arch;
pub mod c02;
pub mod c03;
pub mod c06;
pub mod c07;
pub mod c14;
pub mod c15;
pub mod c18;
pub mod netprops;

use crate::util::*;
use neurons::tensor::{Data, Shape, Tensor};

pub struct Gen<'a> {
    pub ctx: &'a mut Ctx,
    /// (request line, tolerance class, label, non-trivial?)
    pub out: Vec<(String, Tol, String, bool)>,
}

impl<'a> Gen<'a> {
    pub fn new(ctx: &'a mut Ctx) -> Self {
        Gen { ctx, out: Vec::new() }
    }
    pub fn push(&mut self, req: String, tol: Tol, label: &str, nontrivial: bool) {
        // `learn` requests get a trailing progress-printing interval (0 = none): it must never influence
        // what training computes, stops at, returns or leaves behind, so every learn case also varies it
        let req = if req.contains(" learn ") {
            const PRINTS: [usize; 8] = [0, 2, 0, 3, 1, 50, 0, 4];
            let k = self.out.len();
            format!("{} {}", req, PRINTS[k % 8])
        } else {
            req
        };
        // "warm" variants: the same request on a network that was evaluated once BEFORE its connections, accumulations,
        // objective and optimizer were configured, and once more after (nothing the network remembers from an earlier
        // evaluation may enter a later one) — every fourth network request
        let warm = if req.starts_with("net ") && self.out.len() % 4 == 1 {
            [" predict ", " predict_batch ", " validate ", " backward ", " learn "].iter().find_map(|c| req.find(c).map(|pos| format!("{}warm {}", &req[..pos + 1], &req[pos + 1..])))
        } else {
            None
        };
        self.out.push((req, tol, label.to_string(), nontrivial));
        if let Some(w) = warm {
            self.out.push((w, tol, format!("{}/warm", label), nontrivial));
        }
    }
    pub fn rng(&mut self) -> &mut Rng {
        &mut self.ctx.rng
    }
    pub fn n(&self, quick: usize, thorough: usize) -> usize {
        self.ctx.n(quick, thorough)
    }
    /// a value: mostly generic, sometimes special
    pub fn val(&mut self, specials: bool) -> f32 {
        if specials && self.rng().below(6) == 0 {
            f32::from_bits(self.rng().pick(&SPECIALS))
        } else {
            self.rng().generic()
        }
    }
    pub fn tensor_of(&mut self, s: &Shape, specials: bool) -> Tensor {
        let mut v = |g: &mut Gen, n: usize| -> Vec<f32> { (0..n).map(|_| g.val(specials)).collect() };
        match s {
            Shape::Single(n) => Tensor { shape: s.clone(), data: Data::Single(v(self, *n)) },
            Shape::Double(r, c) => Tensor { shape: s.clone(), data: Data::Double((0..*r).map(|_| v(self, *c)).collect()) },
            Shape::Triple(a, r, c) => Tensor {
                shape: s.clone(),
                data: Data::Triple((0..*a).map(|_| (0..*r).map(|_| v(self, *c)).collect()).collect()),
            },
            Shape::Quadruple(f, a, r, c) => Tensor {
                shape: s.clone(),
                data: Data::Quadruple(
                    (0..*f).map(|_| (0..*a).map(|_| (0..*r).map(|_| v(self, *c)).collect()).collect()).collect(),
                ),
            },
            _ => panic!("tensor_of"),
        }
    }
    pub fn shape_of_rank(&mut self, rank: usize, maxdim: usize) -> Shape {
        let mut d = |g: &mut Gen| g.rng().range(1, maxdim);
        match rank {
            1 => Shape::Single(d(self)),
            2 => Shape::Double(d(self), d(self)),
            3 => Shape::Triple(d(self), d(self), d(self)),
            _ => Shape::Quadruple(d(self), d(self), d(self), d(self)),
        }
    }
}

pub fn nontrivial_tensor(t: &Tensor) -> bool {
    let f = crate::ops::tensor::flat_any(t);
    f.len() >= 2 && f.iter().any(|x| x.to_bits() != f[0].to_bits())
}

pub fn generate(g: &mut Gen) {
    match g.ctx.prop.clone().as_str() {
        "C01" => netprops::c01(g),
        "C02" => c02::generate(g),
        "C04" => netprops::c04(g),
        "C05" => netprops::c05(g),
        "C08" => netprops::c08(g),
        "C09" => netprops::c09(g),
        "C10" => netprops::c10(g),
        "C11" => netprops::c11(g),
        "C12" => netprops::c12(g),
        "C13" => netprops::c13(g),
        "C16" => netprops::c16(g),
        "C17" => netprops::c17(g),
        "C03" => c03::generate(g),
        "C06" => c06::generate(g),
        "C07" => c07::generate(g),
        "C14" => c14::generate(g),
        "C15" => c15::generate(g),
        "C18" => c18::generate(g),
        p => panic!("no generator for property {}", p),
    }
}
