//! C07: activations.

use super::*;

const ACTS: [&str; 6] = ["relu", "leaky", "sigmoid", "tanh", "linear", "softmax"];

pub fn generate(g: &mut Gen) {
    // deterministic core: every activation x direction x rank, generic values, kink and special values
    let kink: Vec<f32> = vec![0.0, -0.0, 1e-45, -1e-45, 1e-30, -1e-30, 1.0, -1.0, 88.0, -88.0, 89.0, -89.0, 104.0, -104.0, 1e4, -1e4, 3e38, -3e38, f32::MAX, f32::MIN];
    for a in ACTS.iter() {
        // piecewise-linear activations have a unique IEEE result; sigmoid / tanh / soft-max go through exp and
        // divisions, where a correct implementation may round differently
        let tol = if ["softmax", "sigmoid", "tanh"].contains(a) { Tol::Tight } else { Tol::Exact };
        for (c, h, w) in [(1usize, 1usize, 1usize), (1, 2, 3), (2, 2, 2), (3, 1, 2)] {
            let t3 = g.tensor_of(&Shape::Triple(c, h, w), false);
            let t1 = g.tensor_of(&Shape::Single(c * h * w), false);
            g.push(format!("act.fwd {} {}", a, qt(&t3)), tol, &format!("{}/fwd/3d", a), c * h * w >= 2);
            g.push(format!("act.bwd {} {}", a, qt(&t3)), tol, &format!("{}/bwd/3d", a), c * h * w >= 2);
            g.push(format!("act.fwd {} {}", a, qt(&t1)), tol, &format!("{}/fwd/1d", a), c * h * w >= 2);
            g.push(format!("act.bwd {} {}", a, qt(&t1)), tol, &format!("{}/bwd/1d", a), c * h * w >= 2);
        }
        if *a != "softmax" {
            let t = Tensor::single(kink.clone());
            g.push(format!("act.fwd {} {}", a, qt(&t)), tol, &format!("{}/fwd/kink+extremes", a), true);
            g.push(format!("act.bwd {} {}", a, qt(&t)), tol, &format!("{}/bwd/kink+extremes", a), true);
            // the same values through the 3-D copy
            let t3 = Tensor::triple(vec![kink[..10].chunks(5).map(|c| c.to_vec()).collect(), kink[10..].chunks(5).map(|c| c.to_vec()).collect()]);
            g.push(format!("act.fwd {} {}", a, qt(&t3)), tol, &format!("{}/fwd/kink+extremes/3d", a), true);
            g.push(format!("act.bwd {} {}", a, qt(&t3)), tol, &format!("{}/bwd/kink+extremes/3d", a), true);
        }
        // unsupported ranks
        let d = g.tensor_of(&Shape::Double(2, 2), false);
        g.push(format!("act.fwd {} {}", a, qt(&d)), Tol::Exact, "unsupported-rank", true);
        g.push(format!("act.bwd {} {}", a, qt(&d)), Tol::Exact, "unsupported-rank", true);
    }
    // tensors that are zero in EVERY element (sigmoid 0 = 1/2, soft-max of zeros = 1/n), both signs of zero, every rank
    for a in ACTS.iter() {
        let tol = if ["softmax", "sigmoid", "tanh"].contains(a) { Tol::Tight } else { Tol::Exact };
        for z in [0.0f32, -0.0] {
            for n in [1usize, 4] {
                let t1 = Tensor::single(vec![z; n]);
                let t3 = Tensor::triple(vec![vec![vec![z; n]; 2]]);
                for t in [&t1, &t3] {
                    g.push(format!("act.fwd {} {}", a, qt(t)), tol, &format!("{}/fwd/all-zero", a), true);
                    g.push(format!("act.bwd {} {}", a, qt(t)), tol, &format!("{}/bwd/all-zero", a), true);
                }
            }
        }
    }
    // LONG vectors and large maps (beyond any block size an implementation might split the work into: 1023 … 5000 elements,
    // not multiples of 1024; a 3 x 20 x 21 map): every element is still the function of its own input
    for a in ACTS.iter() {
        let tol = if ["softmax", "sigmoid", "tanh"].contains(a) { Tol::Tight } else { Tol::Exact };
        for n in [1023usize, 1025, 1500, 2047, 3000, 5000] {
            if !g.ctx.thorough() && (n == 1500 || n == 3000) && *a != "sigmoid" { continue; }
            if *a == "softmax" && n > 2047 { continue; }
            let v: Vec<f32> = (0..n).map(|i| ((i * 37 % 101) as f32 - 50.0) * 0.06 + if i % 7 == 0 { 0.0123 } else { -0.0071 }).collect();
            let t1 = Tensor::single(v);
            g.push(format!("act.fwd {} {}", a, qt(&t1)), tol, &format!("{}/fwd/long", a), true);
            g.push(format!("act.bwd {} {}", a, qt(&t1)), tol, &format!("{}/bwd/long", a), true);
        }
        if *a != "softmax" {
            let t3 = Tensor::triple((0..3).map(|c| (0..20).map(|r| (0..21).map(|k| ((c * 420 + r * 21 + k) as f32 * 0.013).sin() * 3.0).collect()).collect()).collect());
            g.push(format!("act.fwd {} {}", a, qt(&t3)), tol, &format!("{}/fwd/large-map", a), true);
            g.push(format!("act.bwd {} {}", a, qt(&t3)), tol, &format!("{}/bwd/large-map", a), true);
        }
    }
    // consecutive calls on inputs that differ by a few 1e-6 (across the kink): every call answers for its own input
    for a in ACTS.iter() {
        let tol = if ["softmax", "sigmoid", "tanh"].contains(a) { Tol::Tight } else { Tol::Exact };
        let seq: [[f32; 3]; 5] = [[0.0, 0.5, -0.25], [3e-6, 0.5, -0.25], [-2e-6, 0.500001, -0.25], [4e-6, 0.5, -0.250002], [0.0, 0.5, -0.25]];
        for dir in ["bwd", "fwd"] {
            for v in seq.iter() {
                g.push(format!("act.{} {} {}", dir, a, qt(&Tensor::single(v.to_vec()))), tol, &format!("{}/{}/near-equal-sequence/1d", a, dir), true);
            }
            for v in seq.iter() {
                g.push(format!("act.{} {} {}", dir, a, qt(&Tensor::triple(vec![vec![v.to_vec()]]))), tol, &format!("{}/{}/near-equal-sequence/3d", a, dir), true);
            }
        }
    }
    // soft-max: huge, tiny, equal and shifted vectors
    let cases: Vec<Vec<f32>> = vec![
        vec![3e38, 3e38, -3e38],
        vec![f32::MAX, 0.0, f32::MIN],
        vec![1e-40, -1e-40, 0.0],
        vec![5.0; 7],
        vec![-1e30, -1e30],
        vec![1000.0, 1001.0, 1002.0],
        vec![0.0, 1.0, 2.0],
        vec![0.25],
        vec![88.0, -88.0, 0.0, 104.0],
        // vectors that already are probability vectors / one-hot (soft-max of them is NOT themselves)
        vec![0.0, 1.0, 0.0],
        vec![0.25, 0.25, 0.5],
        vec![1.0],
        vec![0.0, 0.0, 1.0, 0.0],
        vec![1.0, 1.0, 2.0, 1.0],
        vec![0.1, 0.2, 0.3, 0.4],
        vec![0.5, 0.5],
        vec![0.2; 5],
    ];
    for c in cases {
        let t = Tensor::single(c);
        g.push(format!("act.fwd softmax {}", qt(&t)), Tol::Tight, "softmax/extreme", true);
        g.push(format!("act.bwd softmax {}", qt(&t)), Tol::Tight, "softmax/extreme/bwd", true);
    }
    for v in [vec![0.0f32, 1.0, 0.0, 0.0, 0.0, 0.0], vec![0.125, 0.125, 0.25, 0.25, 0.125, 0.125]] {
        let t3 = Tensor::triple(vec![v.chunks(3).map(|c| c.to_vec()).collect()]);
        g.push(format!("act.fwd softmax {}", qt(&t3)), Tol::Tight, "softmax/probability-vector/3d", true);
        g.push(format!("act.bwd softmax {}", qt(&t3)), Tol::Tight, "softmax/probability-vector/3d/bwd", true);
    }
    // seeded random stream
    for _ in 0..g.n(300, 6000) {
        let a = g.rng().pick(&ACTS);
        let tol = if ["softmax", "sigmoid", "tanh"].contains(&a) { Tol::Tight } else { Tol::Exact };
        let n = g.rng().range(1, 16);
        let wide = g.rng().below(3) == 0;
        let v: Vec<f32> = (0..n)
            .map(|_| {
                if wide {
                    // anywhere in the finite range, log-uniform magnitude
                    let e = g.rng().uniform(-40.0, 38.0);
                    let m = 10f32.powf(e);
                    if g.rng().coin() { m } else { -m }
                } else {
                    g.rng().uniform(-12.0, 12.0)
                }
            })
            .collect();
        let t = if g.rng().coin() || n < 2 {
            Tensor::single(v)
        } else {
            let w = (1..=n).filter(|d| n % d == 0).nth(g.rng().below(2)).unwrap_or(1);
            Tensor::triple(vec![v.chunks(w).map(|c| c.to_vec()).collect()])
        };
        let dir = if g.rng().coin() { "fwd" } else { "bwd" };
        g.push(format!("act.{} {} {}", dir, a, qt(&t)), tol, &format!("random/{}/{}", a, if wide { "wide" } else { "moderate" }), true);
    }
}
