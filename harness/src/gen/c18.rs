//! C18: the generator and shuffle.

use super::*;
use crate::ops::random::{seed_for_state, M};

pub fn generate(g: &mut Gen) {
    // exact integer -> f32 conversion model
    for e in 20..32u32 {
        for d in [0i64, 1, -1, 2, 63, 64, 65, 127, 128, 129] {
            let n = ((1i64 << e) + d) as u64;
            if n < (1u64 << 32) {
                g.push(format!("rnd.tof32 {}", n), Tol::Exact, "tof32/edges", true);
            }
        }
    }
    for _ in 0..g.n(200, 5000) {
        let n = g.rng().next() % (1u64 << 32);
        g.push(format!("rnd.tof32 {}", n), Tol::Exact, "tof32/random", true);
    }
    // the 63 critical states (ratio == 1), each as the first draw of a shuffle and of generate()
    for state in (M - 64)..=(M - 1) {
        let seed = seed_for_state(state);
        g.push(format!("rnd.shuffle {} 5 0 1 2 3 4", seed), Tol::Exact, "shuffle/critical-state", true);
        g.push(format!("rnd.generate {} {} {} 2", seed, hx(0.0), hx(5.0)), Tol::Exact, "generate/critical-state", true);
        g.push(format!("rnd.generate {} {} {} 2", seed, hx(-1.0), hx(1.0)), Tol::Exact, "generate/critical-state", true);
    }
    // special seeds, including those far above the modulus
    for seed in [0u64, 1, 2, M - 1, M, M + 1, 2 * M, 12345, 570515015, 1u64 << 32, (1u64 << 63), u64::MAX / 48271, u64::MAX / 48271 + 1, u64::MAX - 1, u64::MAX] {
        g.push(format!("rnd.generate {} {} {} 4", seed, hx(-1.0), hx(1.0)), Tol::Exact, "generate/special-seed", true);
        g.push(format!("rnd.shuffle {} 6 10 11 12 13 14 15", seed), Tol::Exact, "shuffle/special-seed", true);
    }
    // (min, max) whose difference is not representable: the last rounding can leave the interval
    let lo = -(2.0f32.powi(-24));
    let hi = 1.0 + 2.0f32.powi(-23);
    for state in [M - 1, M - 2, M - 64, M - 65] {
        g.push(format!("rnd.generate {} {} {} 1", seed_for_state(state), hx(lo), hx(hi)), Tol::Exact, "generate/unrepresentable-width", true);
    }
    g.push(format!("rnd.generate 7 {} {} 3", hx(0.5), hx(0.5)), Tol::Exact, "generate/min=max", true);
    // one-point intervals at values that are not powers of two, and intervals one / a few units in the last place wide:
    // every draw still lies inside (a weighted mean of the ends, rounded twice, can leave such an interval)
    for (si, seed) in [1u64, 7, 12345, u64::MAX, seed_for_state(M - 1)].iter().enumerate() {
        for v in [0.1f32, 0.3, 0.7, 1.1, -2.7, 3.3e-39, 1.7e30, -0.1] {
            g.push(format!("rnd.generate {} {} {} 24", seed, hx(v), hx(v)), Tol::Exact, "generate/one-point", true);
            let up = f32::from_bits(if v > 0.0 { v.to_bits() + 1 } else { v.to_bits() - 1 });
            g.push(format!("rnd.generate {} {} {} 24", seed, hx(v), hx(up)), Tol::Exact, "generate/one-ulp-wide", true);
            if si == 0 {
                let up3 = f32::from_bits(if v > 0.0 { v.to_bits() + 3 } else { v.to_bits() - 3 });
                g.push(format!("rnd.generate {} {} {} 64", seed, hx(v), hx(up3)), Tol::Exact, "generate/three-ulp-wide", true);
            }
        }
        // one-point intervals between other draws and before shuffles: the sequence does not depend on the intervals asked for
        g.push(format!("rnd.mixed {} 7 g {} {} g {} {} g {} {} g {} {} g {} {} s 9 g {} {}", seed, hx(0.0), hx(1.0), hx(1.0), hx(1.0), hx(-1.0), hx(1.0),
            hx(0.25), hx(0.25), hx(4.0), hx(4.0), hx(0.0), hx(1.0)), Tol::Exact, "mixed/one-point-intervals", true);
        g.push(format!("rnd.mixed {} 3 g {} {} s 12 g {} {}", seed, hx(4.0), hx(4.0), hx(-2.0), hx(3.0)), Tol::Exact, "mixed/one-point-then-shuffle", true);
    }
    // one generator asked for different intervals and shuffle lengths in sequence (same lower end / different upper
    // end, same upper / different lower, a draw after a shuffle, a long shuffle after a short one)
    for seed in [1u64, 7, 12345, M - 1, seed_for_state(M - 1)] {
        g.push(format!("rnd.mixed {} 6 g {} {} g {} {} g {} {} g {} {} g {} {} g {} {}", seed, hx(0.0), hx(8.0), hx(0.0), hx(1.0), hx(-1.0), hx(1.0),
            hx(-3.0), hx(1.0), hx(0.0), hx(1.0), hx(0.0), hx(0.5)), Tol::Exact, "mixed/intervals", true);
        g.push(format!("rnd.mixed {} 4 s 50 g {} {} s 4 s 40", seed, hx(0.0), hx(1.0)), Tol::Exact, "mixed/shuffle-then-draw", true);
        g.push(format!("rnd.mixed {} 5 s 4 s 40 g {} {} s 0 s 1", seed, hx(0.0), hx(40.0)), Tol::Exact, "mixed/short-then-long-shuffle", true);
    }
    // intervals whose width overflows single precision, at every kind of state (a zero state makes 0 * inf)
    for seed in [0u64, M, 2 * M, 1, 12345, seed_for_state(M - 1), seed_for_state(M - 64)] {
        for (lo, hi) in [(-3e38f32, 3e38f32), (f32::MIN, f32::MAX), (-3e38, 1.0), (-1.0, f32::MAX), (f32::MIN, 0.0)] {
            g.push(format!("rnd.generate {} {} {} 3", seed, hx(lo), hx(hi)), Tol::Exact, "generate/overflowing-width", true);
        }
    }
    // empty and singleton shuffles
    // randomly initialised tensors: every rank with pairwise different extents, and the library's ranges
    for sh in ["S 7", "S 1", "D 2 5", "D 5 2", "D 1 3", "T 2 3 5", "T 5 3 2", "T 1 2 4", "T 3 1 1", "Q 2 3 4 5", "Q 5 4 3 2", "Q 1 2 1 3"] {
        for (lo, hi) in [(-1.0f32, 1.0f32), (0.0, 1.0), (-0.5, 0.25)] {
            g.push(format!("rnd.tensor {} {} {}", sh, hx(lo), hx(hi)), Tol::Exact, "random-tensor", true);
        }
    }
    // … one-point intervals, intervals whose width overflows single precision, intervals a few units in the last place wide;
    // shapes with an extent of zero or one in every position
    for sh in ["S 7", "D 2 5", "T 2 3 5", "Q 2 3 2 3", "S 64"] {
        for (lo, hi) in [(0.5f32, 0.5f32), (0.0, 0.0), (-2.0, -2.0), (3.0, 3.0), (1e-3, 1e-3), (-3e38, 3e38), (f32::MIN, f32::MAX), (-3e38, 1e38), (-1e38, 3e38),
                         (1.0, f32::from_bits(1.0f32.to_bits() + 1)), (-0.3, f32::from_bits((-0.3f32).to_bits() - 2)), (1e30, 2e30), (-1e-40, 1e-40)] {
            g.push(format!("rnd.tensor {} {} {}", sh, hx(lo), hx(hi)), Tol::Exact, "random-tensor/intervals", true);
        }
    }
    for sh in ["S 0", "D 1 0", "D 3 0", "D 0 3", "T 2 0 3", "T 2 3 0", "T 0 2 3", "Q 1 2 0 1", "Q 2 1 3 0", "Q 0 1 1 1", "D 1 1", "T 1 1 1", "Q 1 1 1 1", "D 7 1", "D 1 7"] {
        g.push(format!("rnd.tensor {} {} {}", sh, hx(-1.0), hx(1.0)), Tol::Exact, "random-tensor/degenerate-extents", true);
    }
    g.push("rnd.shuffle 99 0".to_string(), Tol::Exact, "shuffle/empty", true);
    g.push("rnd.shuffle 99 1 7".to_string(), Tol::Exact, "shuffle/singleton", true);

    // seeded random stream
    for _ in 0..g.n(300, 5000) {
        let seed = if g.rng().coin() { g.rng().next() } else { g.rng().next() % (2 * M) };
        match g.rng().below(2) {
            0 => {
                let n = g.rng().range(1, 64);
                let vals: Vec<String> = (0..n).map(|i| ((i * 7 + 3) % 50).to_string()).collect();
                g.push(format!("rnd.shuffle {} {} {}", seed, n, vals.join(" ")), Tol::Exact, "shuffle/random", true)
            }
            _ => {
                let a = g.rng().uniform(-10.0, 10.0);
                let b = a + g.rng().uniform(0.0, 20.0);
                let n = g.rng().range(1, 20);
                g.push(format!("rnd.generate {} {} {} {}", seed, hx(a), hx(b), n), Tol::Exact, "generate/random", true)
            }
        }
    }
}
