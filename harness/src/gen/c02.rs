//! C02: forward of each layer kind alone and in chains, flat and spatial entry.

use super::arch::*;
use super::*;
use crate::ops::net::{Build, InnerSpec, NetSpec};
use crate::ops::reference::Sh;

fn single_layer(g: &mut Gen, spec: InnerSpec, input: Sh, label: &str) {
    let net = NetSpec { input: input.to_shape(), builds: vec![Build::Layer(spec)], skipacc: "add".into(), loopacc: "mean".into(), opt: None, obj: "mse".into(), clamp: None };
    let x = input_for(g, &net.input);
    g.push(format!("net {} forward {}", net.token(), qt(&x)), Tol::Tight, label, true);
    g.push(format!("net {} predict {}", net.token(), qt(&x)), Tol::Tight, label, true);
    // the same data arriving flat (re-chunked at layer entry)
    if let Sh::Vol(..) = input {
        let flat = Tensor::single(crate::ops::tensor::flat_any(&x));
        g.push(format!("net {} predict {}", net.token(), qt(&flat)), Tol::Tight, &format!("{}/flat-entry", label), true);
    }
}

pub fn generate(g: &mut Gen) {
    let cfg = ArchCfg::small();
    // what a training run leaves behind: afterwards the network still computes the composition of its layers' operators
    // (every layer kind with a dropout rate at top level — dense, convolution, deconvolution — with and without validation
    // data; the prediction made after training is checked against the operators with the TRAINED parameters)
    for kind in 0..3usize {
        use crate::ops::scalar::OptSpec;
        let c = ArchCfg { dropout: false, wscale: 0.5, ..ArchCfg::small() };
        let (input, first, count) = match kind {
            0 => (Shape::Triple(1, 3, 4), InnerSpec::Deconv { filters: 2, act: "tanh".into(), k: (2, 3), s: (1, 2), p: (0, 1), dropout: Some(0.5), ks: (0..2).map(|_| weights(g, &Shape::Triple(1, 2, 3), 0.5)).collect() }, 2 * 4 * 7),
            1 => (Shape::Triple(2, 4, 5), InnerSpec::Conv { filters: 2, act: "tanh".into(), k: (2, 3), s: (1, 1), p: (0, 1), d: (1, 1), dropout: Some(0.5), ks: (0..2).map(|_| weights(g, &Shape::Triple(2, 2, 3), 0.5)).collect() }, 2 * 3 * 5),
            _ => { let mut d = dense_spec(g, &c, 4, 6, "tanh", true); if let InnerSpec::Dense { dropout, .. } = &mut d { *dropout = Some(0.5); } (Shape::Single(4), d, 6) }
        };
        let builds = vec![Build::Layer(first), Build::Layer(dense_spec(g, &c, count, 2, "linear", true))];
        let net = NetSpec { input: input.clone(), builds, skipacc: "add".into(), loopacc: "mean".into(), opt: Some(OptSpec::Sgd(0.05, None)), obj: "mse".into(), clamp: None };
        let pair = |g: &mut Gen| format!("{} {}", qt(&input_for(g, &input)), qt(&target_for(g, &Sh::Flat(2), "mse")));
        let s: Vec<String> = (0..3).map(|_| pair(g)).collect();
        let v: Vec<String> = (0..2).map(|_| pair(g)).collect();
        g.push(format!("net {} learn 3 {} 0 2 2 0", net.token(), s.join(" ")), Tol::Loose, &format!("after-training/kind{}", kind), true);
        g.push(format!("net {} learn 3 {} 1 2 {} 5 2 2 0", net.token(), s.join(" "), v.join(" ")), Tol::Loose, &format!("after-training-with-validation/kind{}", kind), true);
    }
    // deterministic core: stride, dilation in {1,2} x padding in {0,1}, rectangular shapes, every layer kind
    for s in 1..=2usize {
        for d in 1..=2usize {
            for p in 0..=1usize {
                let (c, h, w) = (2usize, 5usize, 6usize);
                let k = (2usize, 3usize);
                if h + 2 * p < d * (k.0 - 1) + 1 || w + 2 * p < d * (k.1 - 1) + 1 { continue; }
                let ks = (0..2).map(|_| weights(g, &Shape::Triple(c, k.0, k.1), 0.6)).collect();
                single_layer(g, InnerSpec::Conv { filters: 2, act: "tanh".into(), k, s: (s, 3 - s), p: (p, 1 - p), d: (d, 3 - d), dropout: None, ks }, Sh::Vol(c, h, w),
                    &format!("conv/s{}d{}p{}", s, d, p));
                if d == 1 {
                    let ks = (0..2).map(|_| weights(g, &Shape::Triple(c, k.0, k.1), 0.6)).collect();
                    single_layer(g, InnerSpec::Deconv { filters: 2, act: "sigmoid".into(), k, s: (s, 3 - s), p: (p, 1 - p), dropout: None, ks }, Sh::Vol(c, 3, 4),
                        &format!("deconv/s{}p{}", s, p));
                    if p == 0 {
                        single_layer(g, InnerSpec::Maxpool { k, s: (s, 3 - s) }, Sh::Vol(c, h, w), &format!("maxpool/s{}", s));
                    }
                }
            }
        }
    }
    // one-cell (1x1) and one-row / one-column kernels with strides > 1, several channels: the window still moves by the stride
    for (k, st, p_) in [((1usize, 1usize), (2usize, 3usize), (0usize, 0usize)), ((1, 1), (1, 2), (0, 1)), ((1, 3), (2, 2), (0, 1)), ((3, 1), (2, 3), (1, 0)), ((1, 1), (3, 1), (1, 1))] {
        let ks = (0..3).map(|_| weights(g, &Shape::Triple(2, k.0, k.1), 0.7)).collect();
        single_layer(g, InnerSpec::Conv { filters: 3, act: "tanh".into(), k, s: st, p: p_, d: (1, 1), dropout: None, ks }, Sh::Vol(2, 5, 7), &format!("conv/thin-kernel-strided/{}x{}", k.0, k.1));
        let ks = (0..2).map(|_| weights(g, &Shape::Triple(2, k.0, k.1), 0.7)).collect();
        single_layer(g, InnerSpec::Deconv { filters: 2, act: "sigmoid".into(), k, s: st, p: (0, 0), dropout: None, ks }, Sh::Vol(2, 3, 4), &format!("deconv/thin-kernel-strided/{}x{}", k.0, k.1));
    }
    // a max-pool BEHIND another layer whose window and stride differ (overlapping and gapped pooling, per axis)
    for (k, st) in [((3usize, 3usize), (2usize, 2usize)), ((2, 3), (1, 2)), ((2, 2), (3, 3)), ((1, 2), (2, 1)), ((3, 1), (1, 3))] {
        let first = InnerSpec::Conv { filters: 2, act: "tanh".into(), k: (1, 1), s: (1, 1), p: (0, 0), d: (1, 1), dropout: None, ks: (0..2).map(|_| weights(g, &Shape::Triple(2, 1, 1), 0.8)).collect() };
        let net = NetSpec { input: Shape::Triple(2, 6, 8), builds: vec![Build::Layer(first), Build::Layer(InnerSpec::Maxpool { k, s: st })], skipacc: "add".into(), loopacc: "mean".into(), opt: None, obj: "mse".into(), clamp: None };
        let x = input_for(g, &net.input);
        g.push(format!("net {} forward {}", net.token(), qt(&x)), Tol::Tight, "maxpool/behind-a-layer", true);
        g.push(format!("net {} predict {}", net.token(), qt(&x)), Tol::Tight, "maxpool/behind-a-layer", true);
        g.push(format!("net {} shapes", net.token()), Tol::Exact, "maxpool/behind-a-layer/shapes", true);
    }
    // max-pool over data without a positive entry (all negative; negative and zero): the maximum is the least negative value
    for (k, st) in [((2usize, 2usize), (2usize, 2usize)), ((2, 3), (1, 2)), ((1, 1), (1, 1))] {
        let net = NetSpec { input: Shape::Triple(2, 4, 6), builds: vec![Build::Layer(InnerSpec::Maxpool { k, s: st })], skipacc: "add".into(), loopacc: "mean".into(), opt: None, obj: "mse".into(), clamp: None };
        for zero_too in [false, true] {
            let mut x = input_for(g, &net.input);
            if let Data::Triple(v) = &mut x.data {
                let mut i = 0usize;
                for m in v.iter_mut() { for r in m.iter_mut() { for e in r.iter_mut() { i += 1; *e = if zero_too && i % 5 == 0 { 0.0 } else { -(e.abs() + 0.01 * i as f32) }; } } }
            }
            g.push(format!("net {} forward {}", net.token(), qt(&x)), Tol::Tight, "maxpool/no-positive-entry", true);
            g.push(format!("net {} predict {}", net.token(), qt(&x)), Tol::Tight, "maxpool/no-positive-entry", true);
        }
    }
    for act in ["relu", "leaky", "sigmoid", "tanh", "linear", "softmax"] {
        for bias in [true, false] {
            let spec = dense_spec(g, &cfg, 4, 3, act, bias);
            single_layer(g, spec, Sh::Flat(4), &format!("dense/{}", act));
        }
    }
    // every element-wise activation on spatial layers too (a convolution, a deconvolution), with pre-activations of both signs
    for act in ["relu", "leaky", "sigmoid", "tanh", "linear", "softmax"] {
        let ks = (0..2).map(|_| weights(g, &Shape::Triple(2, 2, 3), 0.8)).collect();
        single_layer(g, InnerSpec::Conv { filters: 2, act: act.to_string(), k: (2, 3), s: (1, 2), p: (1, 0), d: (2, 1), dropout: None, ks }, Sh::Vol(2, 4, 5), &format!("conv/{}", act));
        let ks = (0..2).map(|_| weights(g, &Shape::Triple(2, 2, 3), 0.8)).collect();
        single_layer(g, InnerSpec::Deconv { filters: 2, act: act.to_string(), k: (2, 3), s: (2, 1), p: (0, 1), dropout: None, ks }, Sh::Vol(2, 3, 4), &format!("deconv/{}", act));
    }
    // a soft-max layer whose pre-activations are ALL strongly negative (only their differences matter), all strongly positive,
    // and far apart
    for bias in [-150.0f32, -95.0, -110.0, 150.0, 1.0e4, -1.0e4] {
        let w = Tensor::double(vec![vec![0.5, -0.25, 0.125], vec![-0.5, 0.75, 0.25], vec![0.25, 0.25, -0.5]]);
        let spec = InnerSpec::Dense { out: 3, act: "softmax".into(), bias: true, dropout: None, w, b: Some(Tensor::single(vec![bias, bias - 1.5, bias + 1.0])) };
        let net = NetSpec { input: Shape::Single(3), builds: vec![Build::Layer(spec)], skipacc: "add".into(), loopacc: "mean".into(), opt: None, obj: "ce".into(), clamp: None };
        g.push(format!("net {} predict {}", net.token(), qt(&Tensor::single(vec![0.5, -1.0, 2.0]))), Tol::Tight, "dense/softmax/shifted-logits", true);
        g.push(format!("net {} forward {}", net.token(), qt(&Tensor::single(vec![0.5, -1.0, 2.0]))), Tol::Tight, "dense/softmax/shifted-logits", true);
    }
    // scale: tiny inputs against huge weights, huge inputs against tiny weights, subnormal inputs (W x + b has no
    // threshold below which an input stops counting), for dense layers and a convolution
    for (xs, wscale) in [(vec![5e-8f32, 1e-9, -3e-8, 2e-10], 1e6f32), (vec![1e-30, -2e-31, 3e-30, 1e-32], 1e28), (vec![3e4, -1e5, 2e4, 5e3], 1e-5),
                         (vec![f32::from_bits(1), f32::from_bits(77), 0.0, -f32::from_bits(5)], 1e30)] {
        let w = Tensor::double((0..3).map(|i| (0..4).map(|j| wscale * (0.3 + 0.17 * i as f32 - 0.11 * j as f32)).collect()).collect());
        let spec = InnerSpec::Dense { out: 3, act: "linear".into(), bias: true, dropout: None, w, b: Some(Tensor::single(vec![0.0, 0.0, 0.0])) };
        let net = NetSpec { input: Shape::Single(4), builds: vec![Build::Layer(spec)], skipacc: "add".into(), loopacc: "mean".into(), opt: None, obj: "mse".into(), clamp: None };
        g.push(format!("net {} predict {}", net.token(), qt(&Tensor::single(xs.clone()))), Tol::Tight, "dense/scale", true);
        let k = Tensor::triple(vec![vec![vec![wscale, -0.5 * wscale], vec![0.25 * wscale, wscale]]]);
        let conv = InnerSpec::Conv { filters: 1, act: "linear".into(), k: (2, 2), s: (1, 1), p: (0, 0), d: (1, 1), dropout: None, ks: vec![k] };
        let netc = NetSpec { input: Shape::Triple(1, 2, 2), builds: vec![Build::Layer(conv)], skipacc: "add".into(), loopacc: "mean".into(), opt: None, obj: "mse".into(), clamp: None };
        g.push(format!("net {} predict {}", netc.token(), qt(&Tensor::triple(vec![vec![xs[..2].to_vec(), xs[2..].to_vec()]]))), Tol::Tight, "conv/scale", true);
    }
    // the smallest sizes: one output unit (also under soft-max: a soft-max over one value is 1), a kernel as large as the
    // input (1x1x1 output), one channel / filter
    for act in ["relu", "leaky", "sigmoid", "tanh", "linear", "softmax"] {
        let spec = dense_spec(g, &cfg, 3, 1, act, true);
        single_layer(g, spec, Sh::Flat(3), &format!("dense-one-unit/{}", act));
        let ks = vec![weights(g, &Shape::Triple(1, 2, 2), 0.6)];
        single_layer(g, InnerSpec::Conv { filters: 1, act: act.to_string(), k: (2, 2), s: (1, 1), p: (0, 0), d: (1, 1), dropout: None, ks }, Sh::Vol(1, 2, 2),
            &format!("conv-one-cell/{}", act));
        let ks = vec![weights(g, &Shape::Triple(1, 1, 1), 0.6)];
        single_layer(g, InnerSpec::Deconv { filters: 1, act: act.to_string(), k: (1, 1), s: (1, 1), p: (0, 0), dropout: None, ks }, Sh::Vol(1, 1, 1),
            &format!("deconv-one-cell/{}", act));
    }
    // small maps with many channels under padding (the padded height does not exceed the channel count): 1x1 with 3
    // channels, 2x2 with 4 and 5, 3x3 with 5, rectangular 2x3 with 6
    for (c, h, w) in [(3usize, 1usize, 1usize), (4, 2, 2), (5, 2, 2), (5, 3, 3), (6, 2, 3), (4, 1, 2)] {
        let ks = (0..2).map(|_| weights(g, &Shape::Triple(c, 3, 3), 0.4)).collect();
        single_layer(g, InnerSpec::Conv { filters: 2, act: "tanh".into(), k: (3, 3), s: (1, 1), p: (1, 1), d: (1, 1), dropout: None, ks }, Sh::Vol(c, h, w),
            &format!("conv-many-channels/{}x{}x{}", c, h, w));
    }
    // pre-activations of every size through an element-wise activation alone (weight 1, no bias): the activation of a tiny
    // pre-activation is not lost (tanh z = z, sigmoid z = 1/2 + z/4 to first order), that of a huge one saturates
    for act in ["tanh", "sigmoid", "relu", "leaky", "linear"] {
        for scale in [1e-30f32, 1e-12, 1e-9, 3e-8, 1e-6, 1e-4, 1e-2, 1.0, 30.0] {
            let w = Tensor::double((0..4).map(|i| (0..4).map(|j| if i == j { 1.0 } else { 0.0 }).collect()).collect());
            let spec = InnerSpec::Dense { out: 4, act: act.to_string(), bias: false, dropout: None, w, b: None };
            let net = NetSpec { input: Shape::Single(4), builds: vec![Build::Layer(spec)], skipacc: "add".into(), loopacc: "mean".into(), opt: None, obj: "mse".into(), clamp: None };
            let xs: Vec<f32> = [1.7f32, -1.3, 0.9, -2.6].iter().map(|v| v * scale).collect();
            g.push(format!("net {} predict {}", net.token(), qt(&Tensor::single(xs))), Tol::Tight, &format!("activation-alone/{}", act), true);
        }
    }
    // a prediction made after a training run that stopped early is still the composition of the layers' operators: the
    // network must be back in inference mode
    crate::gen::netprops::early_stopped_dropout_learn(g, "after-early-stop");
    // every layer kind next to every other (incl. feedback blocks), flat and spatial entry
    for (net, _) in [zoo_net2(g, 1), zoo_flat(g)] {
        let x = input_for(g, &net.input);
        g.push(format!("net {} predict {}", net.token(), qt(&x)), Tol::Tight, "zoo", true);
    }
    for c in 1..=2usize {
        let (net, _) = zoo_net(g, c);
        let x = input_for(g, &net.input);
        g.push(format!("net {} predict {}", net.token(), qt(&x)), Tol::Tight, "zoo", true);
        g.push(format!("net {} forward {}", net.token(), qt(&x)), Tol::Tight, "zoo", true);
    }
    // seeded random stream: chains
    for _ in 0..g.n(120, 2500) {
        let (net, _) = random_net(g, &cfg);
        let x = input_for(g, &net.input);
        let label = format!("chain/{}", net.builds.len());
        if g.rng().coin() {
            g.push(format!("net {} predict {}", net.token(), qt(&x)), Tol::Tight, &label, true);
        } else {
            g.push(format!("net {} forward {}", net.token(), qt(&x)), Tol::Tight, &label, true);
        }
        if let Shape::Triple(..) = net.input {
            if g.rng().below(3) == 0 {
                let flat = Tensor::single(crate::ops::tensor::flat_any(&x));
                g.push(format!("net {} predict {}", net.token(), qt(&flat)), Tol::Tight, "chain/flat-entry", true);
            }
        }
    }
}
