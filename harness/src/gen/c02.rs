//! C02: forward of each layer kind alone and in chains, flat and spatial entry.

use super::arch::*;
use super::*;
use crate::ops::net::{Build, InnerSpec, NetSpec};
use crate::ops::reference::Sh;

fn single_layer(g: &mut Gen, spec: InnerSpec, input: Sh, label: &str) {
    let net = NetSpec { input: input.to_shape(), builds: vec![Build::Layer(spec)], skipacc: "add".into(), loopacc: "mean".into(), opt: None, obj: "mse".into(), clamp: None };
    let x = input_for(g, &net.input);
    g.push(format!("net {} forward {}", net.token(), qt(&x)), Tol::Tight, label, true);
    g.push(format!("net {} predict {}", net.token(), qt(&x)), Tol::Tight, label, true);
    // the same data arriving flat (re-chunked at layer entry)
    if let Sh::Vol(..) = input {
        let flat = Tensor::single(crate::ops::tensor::flat_any(&x));
        g.push(format!("net {} predict {}", net.token(), qt(&flat)), Tol::Tight, &format!("{}/flat-entry", label), true);
    }
}

pub fn generate(g: &mut Gen) {
    let cfg = ArchCfg::small();
    // deterministic core: stride, dilation in {1,2} x padding in {0,1}, rectangular shapes, every layer kind
    for s in 1..=2usize {
        for d in 1..=2usize {
            for p in 0..=1usize {
                let (c, h, w) = (2usize, 5usize, 6usize);
                let k = (2usize, 3usize);
                if h + 2 * p < d * (k.0 - 1) + 1 || w + 2 * p < d * (k.1 - 1) + 1 { continue; }
                let ks = (0..2).map(|_| weights(g, &Shape::Triple(c, k.0, k.1), 0.6)).collect();
                single_layer(g, InnerSpec::Conv { filters: 2, act: "tanh".into(), k, s: (s, 3 - s), p: (p, 1 - p), d: (d, 3 - d), dropout: None, ks }, Sh::Vol(c, h, w),
                    &format!("conv/s{}d{}p{}", s, d, p));
                if d == 1 {
                    let ks = (0..2).map(|_| weights(g, &Shape::Triple(c, k.0, k.1), 0.6)).collect();
                    single_layer(g, InnerSpec::Deconv { filters: 2, act: "sigmoid".into(), k, s: (s, 3 - s), p: (p, 1 - p), dropout: None, ks }, Sh::Vol(c, 3, 4),
                        &format!("deconv/s{}p{}", s, p));
                    if p == 0 {
                        single_layer(g, InnerSpec::Maxpool { k, s: (s, 3 - s) }, Sh::Vol(c, h, w), &format!("maxpool/s{}", s));
                    }
                }
            }
        }
    }
    for act in ["relu", "leaky", "sigmoid", "tanh", "linear", "softmax"] {
        for bias in [true, false] {
            let spec = dense_spec(g, &cfg, 4, 3, act, bias);
            single_layer(g, spec, Sh::Flat(4), &format!("dense/{}", act));
        }
    }
    // every layer kind next to every other (incl. feedback blocks), flat and spatial entry
    for (net, _) in [zoo_net2(g, 1), zoo_flat(g)] {
        let x = input_for(g, &net.input);
        g.push(format!("net {} predict {}", net.token(), qt(&x)), Tol::Tight, "zoo", true);
    }
    for c in 1..=2usize {
        let (net, _) = zoo_net(g, c);
        let x = input_for(g, &net.input);
        g.push(format!("net {} predict {}", net.token(), qt(&x)), Tol::Tight, "zoo", true);
        g.push(format!("net {} forward {}", net.token(), qt(&x)), Tol::Tight, "zoo", true);
    }
    // seeded random stream: chains
    for _ in 0..g.n(120, 2500) {
        let (net, _) = random_net(g, &cfg);
        let x = input_for(g, &net.input);
        let label = format!("chain/{}", net.builds.len());
        if g.rng().coin() {
            g.push(format!("net {} predict {}", net.token(), qt(&x)), Tol::Tight, &label, true);
        } else {
            g.push(format!("net {} forward {}", net.token(), qt(&x)), Tol::Tight, &label, true);
        }
        if let Shape::Triple(..) = net.input {
            if g.rng().below(3) == 0 {
                let flat = Tensor::single(crate::ops::tensor::flat_any(&x));
                g.push(format!("net {} predict {}", net.token(), qt(&flat)), Tol::Tight, "chain/flat-entry", true);
            }
        }
    }
}
