//! Generators for the network-level properties (C01, C04, C05 (protocol part), C08–C13, C16, C17).

use super::arch::*;
use super::*;
use crate::ops::net::{Build, InnerSpec, NetSpec};
use crate::ops::reference::Sh;
use crate::ops::scalar::OptSpec;

const ACCS: [&str; 5] = ["add", "sub", "mul", "mean", "overwrite"];

fn flat(t: &Tensor) -> Tensor {
    Tensor::single(crate::ops::tensor::flat_any(t))
}

fn samples_tok(g: &mut Gen, net: &NetSpec, out: &Sh, n: usize) -> String {
    let mut v = Vec::new();
    for _ in 0..n {
        let x = input_for(g, &net.input);
        let t = target_for(g, out, &net.obj);
        v.push(format!("{} {}", qt(&x), qt(&t)));
    }
    v.join(" ")
}


/// a small network with dropout trained with validation data whose scripted loss rises at once: training stops early
/// (and, in a second request, runs to the end); afterwards the network must be back in inference mode
pub fn early_stopped_dropout_learn(g: &mut Gen, label: &str) {
    let cfgd = ArchCfg { wscale: 0.5, acts: vec!["tanh", "sigmoid"], dropout: false, ..ArchCfg::small() };
    for spatial in [false, true] {
        let mut builds = Vec::new();
        let (input, first_out) = if spatial {
            let mut c = InnerSpec::Conv { filters: 2, act: "sigmoid".into(), k: (2, 2), s: (1, 1), p: (0, 0), d: (1, 1), dropout: Some(0.5),
                ks: (0..2).map(|_| weights(g, &Shape::Triple(1, 2, 2), 0.5)).collect() };
            if let InnerSpec::Conv { dropout, .. } = &mut c { *dropout = Some(0.5); }
            builds.push(Build::Layer(c));
            (Shape::Triple(1, 4, 3), 2 * 3 * 2)
        } else {
            let mut d = dense_spec(g, &cfgd, 3, 6, "sigmoid", true);
            if let InnerSpec::Dense { dropout, .. } = &mut d { *dropout = Some(0.5); }
            builds.push(Build::Layer(d));
            (Shape::Single(3), 6)
        };
        builds.push(Build::Layer(dense_spec(g, &cfgd, first_out, 2, "linear", true)));
        let mut net = NetSpec { input, builds, skipacc: "add".into(), loopacc: "mean".into(), opt: None, obj: "mse".into(), clamp: None };
        net.opt = Some(OptSpec::Sgd(0.05, None));
        let s = samples_tok(g, &net, &Sh::Flat(2), 2);
        let v = samples_tok(g, &net, &Sh::Flat(2), 1);
        for script in [vec![1.0f32, 2.0, 3.0, 4.0, 5.0, 6.0], vec![6.0, 5.0, 4.0, 3.0, 2.0, 1.0]] {
            g.push(format!("net {} learn 2 {} 1 1 {} 2 1 6 {} {}", net.token(), s, v, script.len(), q1(&script)), Tol::Loose,
                &format!("{}/{}", label, if spatial { "spatial" } else { "flat" }), true);
        }
    }
    // … and with the dropout layer inside a feedback block (a deconvolution, a convolution, a dense layer)
    for kind in ["block-deconv", "block-conv", "block-dense"] {
        let (input, inner, count) = match kind {
            "block-deconv" => (Shape::Triple(1, 3, 3), InnerSpec::Deconv { filters: 1, act: "tanh".into(), k: (3, 3), s: (1, 1), p: (1, 1), dropout: Some(0.5), ks: vec![weights(g, &Shape::Triple(1, 3, 3), 0.4)] }, 9),
            "block-conv" => (Shape::Triple(1, 3, 3), InnerSpec::Conv { filters: 1, act: "tanh".into(), k: (3, 3), s: (1, 1), p: (1, 1), d: (1, 1), dropout: Some(0.5), ks: vec![weights(g, &Shape::Triple(1, 3, 3), 0.4)] }, 9),
            _ => {
                let mut d = dense_spec(g, &cfgd, 4, 4, "tanh", true);
                if let InnerSpec::Dense { dropout, .. } = &mut d { *dropout = Some(0.5); }
                (Shape::Single(4), d, 4)
            }
        };
        let builds = vec![Build::Feedback { inner: vec![inner], loops: 2, inskips: false, outskips: false, acc: "mean".into() }, Build::Layer(dense_spec(g, &cfgd, count, 2, "linear", true))];
        let mut net = NetSpec { input, builds, skipacc: "add".into(), loopacc: "mean".into(), opt: None, obj: "mse".into(), clamp: None };
        net.opt = Some(OptSpec::Sgd(0.05, None));
        let s = samples_tok(g, &net, &Sh::Flat(2), 2);
        let v = samples_tok(g, &net, &Sh::Flat(2), 1);
        for script in [vec![1.0f32, 2.0, 3.0, 4.0, 5.0, 6.0], vec![6.0, 5.0, 4.0, 3.0, 2.0, 1.0]] {
            g.push(format!("net {} learn 2 {} 1 1 {} 2 1 6 {} {}", net.token(), s, v, script.len(), q1(&script)), Tol::Loose, &format!("{}/{}", label, kind), true);
        }
        // a stand-alone validate (and a zero-epoch learn) before the evaluation: the block is back in inference mode
        g.push(format!("net {} validate 2 {} {} 0", net.token(), s, hx(0.1)), Tol::Tight, &format!("{}/{}/validate", label, kind), true);
        g.push(format!("net {} learn 2 {} 0 2 0 0", net.token(), s), Tol::Loose, &format!("{}/{}/zero-epochs", label, kind), true);
    }
}

/* ---------------- C08 ---------------- */

pub fn c08(g: &mut Gen) {
    let cfg = ArchCfg { max_layers: 5, max_stride: 3, max_dilation: 3, ..ArchCfg::small() };
    // flat sizes feeding a spatial layer: perfect squares accepted, everything else rejected
    for n in 1..=g.n(30, 200) {
        for kind in 0..3usize {
            let d = dense_spec(g, &cfg, 3, n, "linear", false);
            let r = (n as f64).sqrt().floor().max(1.0) as usize;
            let sp = match kind {
                0 => InnerSpec::Conv { filters: 1, act: "linear".into(), k: (1, 1), s: (1, 1), p: (0, 0), d: (1, 1), dropout: None, ks: vec![weights(g, &Shape::Triple(1, 1, 1), 0.5)] },
                1 => InnerSpec::Deconv { filters: 1, act: "linear".into(), k: (1, 1), s: (1, 1), p: (0, 0), dropout: None, ks: vec![weights(g, &Shape::Triple(1, 1, 1), 0.5)] },
                _ => InnerSpec::Maxpool { k: (1, 1), s: (1, 1) },
            };
            let _ = r;
            let net = NetSpec { input: Shape::Single(3), builds: vec![Build::Layer(d), Build::Layer(sp)], skipacc: "add".into(), loopacc: "mean".into(), opt: None, obj: "mse".into(), clamp: None };
            g.push(format!("net {} shapes", net.token()), Tol::Exact, "flat-to-spatial", true);
            if n <= 16 {
                let x = input_for(g, &net.input);
                g.push(format!("net {} predict {}", net.token(), qt(&x)), Tol::Tight, "flat-to-spatial/predict", true);
            }
        }
    }
    // a flat position connected into a spatial position with several channels AND several columns (and back): the transition
    // keeps every element, in row-major order
    for (c, h, w) in [(2usize, 2usize, 3usize), (3, 1, 2), (2, 3, 2)] {
        let n = c * h * w;
        let conv = InnerSpec::Conv { filters: c, act: "tanh".into(), k: (1, 1), s: (1, 1), p: (0, 0), d: (1, 1), dropout: None, ks: (0..c).map(|_| weights(g, &Shape::Triple(c, 1, 1), 0.5)).collect() };
        let conv2 = InnerSpec::Conv { filters: c, act: "tanh".into(), k: (1, 1), s: (1, 1), p: (0, 0), d: (1, 1), dropout: None, ks: (0..c).map(|_| weights(g, &Shape::Triple(c, 1, 1), 0.5)).collect() };
        for (a, b) in [(2usize, 1usize), (0, 2), (1, 3)] {
            // layers: 0 conv (spatial in), 1 conv (spatial in), 2 dense (flat in, n), 3 dense (flat in, n)
            let builds = vec![Build::Layer(conv.clone()), Build::Layer(conv2.clone()), Build::Layer(dense_spec(g, &cfg, n, n, "tanh", true)), Build::Layer(dense_spec(g, &cfg, n, 2, "linear", true)),
                Build::Connect(a.min(b), a.max(b))];
            let net = NetSpec { input: Shape::Triple(c, h, w), builds, skipacc: "add".into(), loopacc: "mean".into(), opt: None, obj: "mse".into(), clamp: None };
            let x = input_for(g, &net.input);
            g.push(format!("net {} predict {}", net.token(), qt(&x)), Tol::Tight, "flat-spatial-connection/predict", true);
            let t = target_for(g, &Sh::Flat(2), "mse");
            g.push(format!("net {} backward {} {}", net.token(), qt(&x), qt(&t)), Tol::Tight, "flat-spatial-connection/gradient-shapes", true);
        }
        // a loop from a flattened multi-filter convolution back into a multi-channel spatial layer
        let builds = vec![Build::Layer(conv.clone()), Build::Layer(conv2.clone()), Build::Layer(dense_spec(g, &cfg, n, 2, "linear", true)),
            Build::Loopback { outof: 1, into: 0, iterations: 1, scale: "inv".into(), inskips: true }];
        let net = NetSpec { input: Shape::Triple(c, h, w), builds, skipacc: "add".into(), loopacc: "add".into(), opt: None, obj: "mse".into(), clamp: None };
        let x = input_for(g, &net.input);
        g.push(format!("net {} predict {}", net.token(), qt(&x)), Tol::Tight, "flat-spatial-loop/predict", true);
    }
    // an input that is zero in every element: produced shapes and gradient shapes do not depend on the VALUES
    for kind in 0..4usize {
        let (input, first, n_mid) = match kind {
            0 => (Shape::Single(3), dense_spec(g, &cfg, 3, 5, "relu", true), 5),
            1 => (Shape::Single(4), dense_spec(g, &cfg, 4, 2, "linear", false), 2),
            2 => (Shape::Triple(2, 3, 4), InnerSpec::Conv { filters: 2, act: "relu".into(), k: (2, 3), s: (1, 1), p: (0, 1), d: (1, 1), dropout: None,
                ks: (0..2).map(|_| weights(g, &Shape::Triple(2, 2, 3), 0.5)).collect() }, 2 * 2 * 4),
            _ => (Shape::Triple(1, 2, 3), InnerSpec::Deconv { filters: 2, act: "linear".into(), k: (2, 2), s: (2, 1), p: (0, 0), dropout: None,
                ks: (0..2).map(|_| weights(g, &Shape::Triple(1, 2, 2), 0.5)).collect() }, 2 * 4 * 4),
        };
        let net = NetSpec { input: input.clone(), builds: vec![Build::Layer(first), Build::Layer(dense_spec(g, &cfg, n_mid, 3, "linear", false)), Build::Layer(dense_spec(g, &cfg, 3, 2, "tanh", true))],
            skipacc: "add".into(), loopacc: "mean".into(), opt: Some(OptSpec::Sgd(0.05, None)), obj: "mse".into(), clamp: None };
        let zero = match &input { Shape::Single(n) => Tensor::single(vec![0.0; *n]), Shape::Triple(c, h, w) => Tensor::triple(vec![vec![vec![0.0; *w]; *h]; *c]), _ => Tensor::single(vec![]) };
        let t = target_for(g, &Sh::Flat(2), "mse");
        g.push(format!("net {} predict {}", net.token(), qt(&zero)), Tol::Tight, "zero-input/predict", true);
        g.push(format!("net {} backward {} {}", net.token(), qt(&zero), qt(&t)), Tol::Tight, "zero-input/gradient-shapes", true);
        g.push(format!("net {} learn 1 {} {} 0 1 2 0", net.token(), qt(&zero), qt(&t)), Tol::Loose, "zero-input/learn", true);
    }
    // builders after every kind of predecessor (incl. feedback blocks)
    for (net, _) in [zoo_net2(g, 1), zoo_net2(g, 2), zoo_flat(g)] {
        g.push(format!("net {} shapes", net.token()), Tol::Exact, "zoo/shapes", true);
        let x = input_for(g, &net.input);
        g.push(format!("net {} predict {}", net.token(), qt(&x)), Tol::Tight, "zoo/predict", true);
        let t = target_for(g, &Sh::Flat(2), "mse");
        g.push(format!("net {} backward {} {}", net.token(), qt(&x), qt(&t)), Tol::Tight, "zoo/gradient-shapes", true);
    }
    for c in 1..=2usize {
        let (net, _) = zoo_net(g, c);
        g.push(format!("net {} shapes", net.token()), Tol::Exact, "zoo/shapes", true);
        let x = input_for(g, &net.input);
        g.push(format!("net {} predict {}", net.token(), qt(&x)), Tol::Tight, "zoo/predict", true);
        let t = target_for(g, &Sh::Flat(2), "mse");
        g.push(format!("net {} backward {} {}", net.token(), qt(&x), qt(&t)), Tol::Tight, "zoo/gradient-shapes", true);
    }
    // the configuration lattice of each spatial layer kind (valid and invalid points)
    let lim = g.n(5, 9);
    let kmax = g.n(3, 4);
    let smax = g.n(2, 3);
    for ih in 1..=lim {
        for k in 1..=kmax {
            for s in 1..=smax {
                for p in 0..=smax {
                    for d in 1..=smax {
                        // thin the quick lattice
                        if !g.ctx.thorough() && (ih + k + s + p + d) % 3 != 0 { continue; }
                        let iw = (ih % 4) + 2;
                        let conv = InnerSpec::Conv { filters: 2, act: "linear".into(), k: (k, (k % 3) + 1), s: (s, (s % smax) + 1), p: (p, (p + 1) % 2), d: (d, (d % smax) + 1), dropout: None,
                            ks: (0..2).map(|_| weights(g, &Shape::Triple(1, k, (k % 3) + 1), 0.5)).collect() };
                        let net = NetSpec { input: Shape::Triple(1, ih, iw), builds: vec![Build::Layer(conv)], skipacc: "add".into(), loopacc: "mean".into(), opt: None, obj: "mse".into(), clamp: None };
                        g.push(format!("net {} shapes", net.token()), Tol::Exact, "lattice/conv", true);
                        if d == 1 {
                            let dec = InnerSpec::Deconv { filters: 1, act: "linear".into(), k: (k, (k % 3) + 1), s: (s, (s % smax) + 1), p: (p, (p + 1) % 2), dropout: None,
                                ks: vec![weights(g, &Shape::Triple(1, k, (k % 3) + 1), 0.5)] };
                            let net = NetSpec { input: Shape::Triple(1, ih, iw), builds: vec![Build::Layer(dec)], skipacc: "add".into(), loopacc: "mean".into(), opt: None, obj: "mse".into(), clamp: None };
                            g.push(format!("net {} shapes", net.token()), Tol::Exact, "lattice/deconv", true);
                            if ih <= 4 {
                                let x = input_for(g, &net.input);
                                g.push(format!("net {} predict {}", net.token(), qt(&x)), Tol::Tight, "lattice/deconv/predict", true);
                            }
                            if p == 0 {
                                let mp = InnerSpec::Maxpool { k: (k, (k % 3) + 1), s: (s, (s % smax) + 1) };
                                let net = NetSpec { input: Shape::Triple(1, ih, iw), builds: vec![Build::Layer(mp)], skipacc: "add".into(), loopacc: "mean".into(), opt: None, obj: "mse".into(), clamp: None };
                                g.push(format!("net {} shapes", net.token()), Tol::Exact, "lattice/maxpool", true);
                            }
                        }
                    }
                }
            }
        }
    }
    // large strides (the quotient of the size formula is an integer division, whatever the stride): spans that are exact
    // multiples of the stride and their neighbours, per axis
    for s in [7usize, 13, 41, 47, 55, 61] {
        for mult in [1usize, 2, 4] {
            for off in [0usize, 1] {
                if !g.ctx.thorough() && (s + mult + off) % 2 == 1 && s < 41 { continue; }
                let ih = s * mult + 2 + off - 1;      // kernel 2: span = ih - 2 = s*mult - 1 + off
                let conv = InnerSpec::Conv { filters: 1, act: "linear".into(), k: (2, 2), s: (s, 1), p: (0, 0), d: (1, 1), dropout: None,
                    ks: vec![weights(g, &Shape::Triple(1, 2, 2), 0.5)] };
                let net = NetSpec { input: Shape::Triple(1, ih + 1, 3), builds: vec![Build::Layer(conv), Build::Layer(dense_spec(g, &cfg, ((ih + 1 - 2) / s + 1) * 2, 2, "linear", false))],
                    skipacc: "add".into(), loopacc: "mean".into(), opt: None, obj: "mse".into(), clamp: None };
                g.push(format!("net {} shapes", net.token()), Tol::Exact, "large-stride/conv", true);
                let convw = InnerSpec::Conv { filters: 1, act: "linear".into(), k: (2, 2), s: (1, s), p: (0, 0), d: (1, 1), dropout: None,
                    ks: vec![weights(g, &Shape::Triple(1, 2, 2), 0.5)] };
                let netw = NetSpec { input: Shape::Triple(1, 3, ih + 1), builds: vec![Build::Layer(convw)], skipacc: "add".into(), loopacc: "mean".into(), opt: None, obj: "mse".into(), clamp: None };
                g.push(format!("net {} shapes", netw.token()), Tol::Exact, "large-stride/conv", true);
                let mp = InnerSpec::Maxpool { k: (2, 2), s: (s, 1) };
                let netp = NetSpec { input: Shape::Triple(1, ih + 1, 3), builds: vec![Build::Layer(mp)], skipacc: "add".into(), loopacc: "mean".into(), opt: None, obj: "mse".into(), clamp: None };
                g.push(format!("net {} shapes", netp.token()), Tol::Exact, "large-stride/maxpool", true);
                if mult == 1 {
                    let x = input_for(g, &net.input);
                    g.push(format!("net {} predict {}", net.token(), qt(&x)), Tol::Tight, "large-stride/conv/predict", true);
                }
            }
        }
    }
    // builder sequences: announced vs produced shapes, gradient shapes
    for _ in 0..g.n(150, 2000) {
        let (mut net, out) = random_net(g, &cfg);
        net.obj = "mse".into();
        g.push(format!("net {} shapes", net.token()), Tol::Exact, &format!("builder/{}", net.builds.len()), true);
        let x = input_for(g, &net.input);
        g.push(format!("net {} predict {}", net.token(), qt(&x)), Tol::Tight, "builder/predict", true);
        let t = target_for(g, &out, "mse");
        g.push(format!("net {} backward {} {}", net.token(), qt(&x), qt(&t)), Tol::Tight, "builder/backward", true);
    }
    // wrong kind of first layer
    let d = dense_spec(g, &cfg, 4, 2, "linear", true);
    let net = NetSpec { input: Shape::Triple(1, 2, 2), builds: vec![Build::Layer(d)], skipacc: "add".into(), loopacc: "mean".into(), opt: None, obj: "mse".into(), clamp: None };
    g.push(format!("net {} shapes", net.token()), Tol::Exact, "first-layer-kind", true);
    let net = NetSpec { input: Shape::Single(4), builds: vec![Build::Layer(InnerSpec::Maxpool { k: (1, 1), s: (1, 1) })], skipacc: "add".into(), loopacc: "mean".into(), opt: None, obj: "mse".into(), clamp: None };
    g.push(format!("net {} shapes", net.token()), Tol::Exact, "first-layer-kind", true);
    // a flattened spatial output that re-enters its own spatial layer through a loop connection must be read as the
    // announced c x h x w on every iteration (with and without input skips, 1..3 iterations, square and rectangular)
    for (c, h, w) in [(1usize, 4usize, 4usize), (2, 3, 5)] {
        for iterations in 1..=3usize {
            for inskips in [false, true] {
                let conv = InnerSpec::Conv { filters: c, act: "tanh".into(), k: (3, 3), s: (1, 1), p: (1, 1), d: (1, 1), dropout: None,
                    ks: (0..c).map(|_| weights(g, &Shape::Triple(c, 3, 3), 0.3)).collect() };
                let mut net = NetSpec { input: Shape::Triple(c, h, w), builds: vec![Build::Layer(conv), Build::Layer(dense_spec(g, &cfg, c * h * w, 2, "tanh", true))],
                    skipacc: "add".into(), loopacc: "mean".into(), opt: None, obj: "mse".into(), clamp: None };
                net.builds.push(Build::Loopback { outof: 0, into: 0, iterations, scale: "inv".into(), inskips });
                let x = input_for(g, &net.input);
                g.push(format!("net {} predict {}", net.token(), qt(&x)), Tol::Tight, &format!("looped-flattened/{}x{}x{}/k{}", c, h, w, iterations), true);
                g.push(format!("net {} forward {}", net.token(), qt(&x)), Tol::Tight, &format!("looped-flattened/{}x{}x{}/k{}", c, h, w, iterations), true);
            }
        }
    }
    // what a training run WITH validation data leaves behind: every layer still produces the shape it announced (a
    // deconvolution / convolution / max-pool that is not followed by a dense layer stays spatial), and the count is unchanged
    for kind in 0..3usize {
        let c = ArchCfg { dropout: false, wscale: 0.5, ..ArchCfg::small() };
        let first = match kind {
            0 => InnerSpec::Deconv { filters: 2, act: "tanh".into(), k: (2, 2), s: (1, 1), p: (0, 0), dropout: None, ks: (0..2).map(|_| weights(g, &Shape::Triple(1, 2, 2), 0.5)).collect() },
            1 => InnerSpec::Conv { filters: 2, act: "tanh".into(), k: (2, 2), s: (1, 1), p: (1, 1), d: (1, 1), dropout: None, ks: (0..2).map(|_| weights(g, &Shape::Triple(1, 2, 2), 0.5)).collect() },
            _ => InnerSpec::Deconv { filters: 2, act: "tanh".into(), k: (1, 2), s: (1, 1), p: (0, 0), dropout: Some(0.5), ks: (0..2).map(|_| weights(g, &Shape::Triple(1, 1, 2), 0.5)).collect() },
        };
        let (h, w) = match kind { 0 => (4usize, 4usize), 1 => (4, 4), _ => (3, 4) };
        let second = InnerSpec::Conv { filters: 1, act: "tanh".into(), k: (2, 2), s: (1, 1), p: (0, 0), d: (1, 1), dropout: None, ks: vec![weights(g, &Shape::Triple(2, 2, 2), 0.5)] };
        let builds = vec![Build::Layer(first), Build::Layer(second), Build::Layer(dense_spec(g, &c, (h - 1) * (w - 1), 2, "linear", true))];
        let net = NetSpec { input: Shape::Triple(1, 3, 3), builds, skipacc: "add".into(), loopacc: "mean".into(), opt: Some(OptSpec::Sgd(0.05, None)), obj: "mse".into(), clamp: None };
        let s = samples_tok(g, &net, &Sh::Flat(2), 3);
        let v = samples_tok(g, &net, &Sh::Flat(2), 2);
        g.push(format!("net {} learn 3 {} 1 2 {} 5 2 2 0", net.token(), s, v), Tol::Loose, &format!("after-training-with-validation/kind{}", kind), true);
        g.push(format!("net {} learn 3 {} 0 2 2 0", net.token(), s), Tol::Loose, &format!("after-training/kind{}", kind), true);
    }
    // skip connections between positions of DIFFERENT shape (same element count): spatial into re-arranged spatial, spatial into
    // the flattened input of a dense layer — under every accumulation the target produces the shape it announces
    for acc in ACCS.iter() {
        let c = ArchCfg { dropout: false, wscale: 0.5, ..ArchCfg::small() };
        let a = NetSpec { input: Shape::Triple(4, 2, 2), builds: vec![
            Build::Layer(InnerSpec::Deconv { filters: 1, act: "tanh".into(), k: (2, 2), s: (2, 2), p: (0, 0), dropout: None, ks: vec![weights(g, &Shape::Triple(4, 2, 2), 0.4)] }),
            Build::Layer(InnerSpec::Conv { filters: 2, act: "linear".into(), k: (1, 1), s: (1, 1), p: (0, 0), d: (1, 1), dropout: None, ks: (0..2).map(|_| weights(g, &Shape::Triple(1, 1, 1), 0.8)).collect() }),
            Build::Connect(0, 1)], skipacc: acc.to_string(), loopacc: "mean".into(), opt: None, obj: "mse".into(), clamp: None };
        let b = NetSpec { input: Shape::Triple(1, 4, 4), builds: vec![
            Build::Layer(InnerSpec::Conv { filters: 1, act: "tanh".into(), k: (3, 3), s: (1, 1), p: (1, 1), d: (1, 1), dropout: None, ks: vec![weights(g, &Shape::Triple(1, 3, 3), 0.4)] }),
            Build::Layer(dense_spec(g, &c, 16, 3, "linear", true)), Build::Connect(0, 1)], skipacc: acc.to_string(), loopacc: "mean".into(), opt: None, obj: "mse".into(), clamp: None };
        let cnet = NetSpec { input: Shape::Triple(2, 3, 2), builds: vec![
            Build::Layer(InnerSpec::Deconv { filters: 1, act: "tanh".into(), k: (1, 3), s: (1, 1), p: (0, 0), dropout: None, ks: vec![weights(g, &Shape::Triple(2, 1, 3), 0.4)] }),
            Build::Layer(InnerSpec::Maxpool { k: (1, 2), s: (1, 2) }),
            Build::Layer(dense_spec(g, &c, 6, 2, "linear", true)), Build::Connect(0, 1)], skipacc: acc.to_string(), loopacc: "mean".into(), opt: None, obj: "mse".into(), clamp: None };
        for (ni, net) in [a, b, cnet].iter().enumerate() {
            let x = input_for(g, &net.input);
            g.push(format!("net {} predict {}", net.token(), qt(&x)), Tol::Tight, &format!("connected-across-shapes{}/{}", ni, acc), true);
            g.push(format!("net {} shapes", net.token()), Tol::Exact, &format!("connected-across-shapes{}/shapes", ni), true);
            let out = match ni { 0 => Sh::Vol(2, 4, 4), 1 => Sh::Flat(3), _ => Sh::Flat(2) };
            let t = target_for(g, &out, "mse");
            g.push(format!("net {} backward {} {}", net.token(), qt(&x), qt(&t)), Tol::Tight, &format!("connected-across-shapes{}/gradient-shapes", ni), true);
        }
    }

}

/* ---------------- C12 ---------------- */

pub fn c12(g: &mut Gen) {
    let cfg = ArchCfg { final_dense: Some(4), max_layers: 3, max_dim: 4, ..ArchCfg::small() };
    let sizes: Vec<usize> = if g.ctx.thorough() { vec![1, 2, 63, 64, 65, 128, 129, 200] } else { vec![1, 63, 64, 65, 129] };
    let objs = ["mse", "mae", "ae", "rmse", "ce", "bce", "kl"];
    let mut k = 0;
    for &n in &sizes {
        for variant in 0..g.n(3, 8) {
            k += 1;
            let (mut net, out) = random_net(g, &cfg);
            // soft-max / single / multi output
            if let Some(Build::Layer(InnerSpec::Dense { act, out: o, .. })) = net.builds.last_mut() {
                match variant % 3 {
                    0 => { *act = "softmax".into(); }
                    1 => { *act = "sigmoid".into(); }
                    _ => { let _ = o; }
                }
            }
            net.obj = match variant % 3 { 0 => "ce".to_string(), 1 => "bce".to_string(), _ => objs[k % 4].to_string() };
            let xs: Vec<String> = (0..n).map(|_| { let x = input_for(g, &net.input); qt(&x) }).collect();
            g.push(format!("net {} predict_batch {} {}", net.token(), n, xs.join(" ")), Tol::Tight, &format!("predict_batch/{}", n), true);
            let tol = [0.0f32, 1e-6, 0.1, 10.0][k % 4];
            let s = samples_tok(g, &net, &out, n);
            g.push(format!("net {} validate {} {} {} 0", net.token(), n, s, hx(tol)), Tol::Tight, &format!("validate/{}/{}", n, net.obj), true);
        }
    }
    // the accuracy rule is chosen by the output layer's activation alone: a soft-max output scores arg-max agreement under
    // EVERY objective; targets whose components are all negative, all zero or all subnormal still have an arg-max
    for (oi, obj) in objs.iter().enumerate() {
        let (mut net, out) = random_net(g, &cfg);
        if let Some(Build::Layer(InnerSpec::Dense { act, .. })) = net.builds.last_mut() { *act = "softmax".into(); }
        net.obj = obj.to_string();
        for n in [1usize, 5, 65] {
            if !g.ctx.thorough() && n == 65 && oi % 2 == 1 { continue; }
            let s = samples_tok(g, &net, &out, n);
            g.push(format!("net {} validate {} {} {} 0", net.token(), n, s, hx(0.05)), Tol::Tight, &format!("validate/softmax-under-{}/{}", obj, n), true);
        }
        // hand-made targets
        let special: Vec<Vec<f32>> = vec![vec![-3.0, -1.0, -2.0, -5.0], vec![-1.0, -1.0, -0.5, -7.0], vec![0.0, 0.0, 0.0, 0.0],
            vec![0.0, 1e-40, 0.0, 0.0], vec![3e-45, 1e-45, 7e-45, 2e-45], vec![0.0, 0.0, 1.1754942e-38, 0.0], vec![-0.0, 0.0, -0.0, 0.0],
            vec![-1e-40, -3e-40, -2e-40, -1e-45]];
        if *obj == "mse" || *obj == "mae" || *obj == "rmse" || g.ctx.thorough() {
            let mut v = Vec::new();
            for t in &special {
                let x = input_for(g, &net.input);
                v.push(format!("{} {}", qt(&x), qt(&Tensor::single(t.clone()))));
            }
            g.push(format!("net {} validate {} {} {} 0", net.token(), special.len(), v.join(" "), hx(0.05)), Tol::Tight,
                &format!("validate/softmax-unusual-targets/{}", obj), true);
            for t in &special {
                let x = input_for(g, &net.input);
                g.push(format!("net {} validate 1 {} {} {} 0", net.token(), qt(&x), qt(&Tensor::single(t.clone())), hx(0.05)), Tol::Tight,
                    &format!("validate/softmax-unusual-target/{}", obj), true);
            }
        }
    }
    // the rule is chosen by the OUTPUT layer alone: a soft-max hidden layer in front of a linear / sigmoid output does not
    // make it a classifier; a soft-max output of ONE unit still scores arg-max agreement (always 1)
    {
        let cd = ArchCfg { conv: false, deconv: false, pool: false, flat_input: Some(true), ..cfg.clone() };
        for (oi, out_act) in ["linear", "sigmoid", "tanh"].iter().enumerate() {
            let net = NetSpec { input: Shape::Single(4), builds: vec![Build::Layer(dense_spec(g, &cd, 4, 5, "softmax", true)), Build::Layer(dense_spec(g, &cd, 5, 3, out_act, true))],
                skipacc: "add".into(), loopacc: "mean".into(), opt: None, obj: objs[oi].to_string(), clamp: None };
            for n in [5usize, 70] {
                let s = samples_tok(g, &net, &Sh::Flat(3), n);
                g.push(format!("net {} validate {} {} {} 0", net.token(), n, s, hx(0.6)), Tol::Tight, &format!("validate/hidden-softmax/{}", out_act), true);
            }
        }
        for obj in ["mse", "ce", "mae"] {
            let net = NetSpec { input: Shape::Single(3), builds: vec![Build::Layer(dense_spec(g, &cd, 3, 4, "tanh", true)), Build::Layer(dense_spec(g, &cd, 4, 1, "softmax", true))],
                skipacc: "add".into(), loopacc: "mean".into(), opt: None, obj: obj.to_string(), clamp: None };
            let mut v = Vec::new();
            for t in [0.0f32, 1.0, 0.5, -2.0, 0.0] {
                let x = input_for(g, &net.input);
                v.push(format!("{} {}", qt(&x), qt(&Tensor::single(vec![t]))));
            }
            g.push(format!("net {} validate 5 {} {} 0", net.token(), v.join(" "), hx(1e-6)), Tol::Tight, &format!("validate/one-unit-softmax/{}", obj), true);
        }
        // a prediction component that is NaN (inf - inf in the output layer) is not "within the tolerance"
        let w = Tensor::double(vec![vec![1.0, 0.0], vec![0.0, 1.0], vec![3e38, -3e38]]);
        let lin = InnerSpec::Dense { out: 3, act: "linear".into(), bias: false, dropout: None, w, b: None };
        let net = NetSpec { input: Shape::Single(2), builds: vec![Build::Layer(lin)], skipacc: "add".into(), loopacc: "mean".into(), opt: None, obj: "mse".into(), clamp: None };
        for n in [7usize, 70] {
            let mut v = Vec::new();
            for i in 0..n {
                let x = if i % 7 == 0 { vec![2.0f32, 2.0] } else { vec![0.25 * (i % 5) as f32, -0.125 * (i % 3) as f32] };
                let t = vec![x[0] + 0.05, x[1] + 0.5, 0.0];
                v.push(format!("{} {}", qt(&Tensor::single(x)), qt(&Tensor::single(t))));
            }
            g.push(format!("net {} validate {} {} {} 0", net.token(), n, v.join(" "), hx(0.1)), Tol::Tight, "validate/nan-component", true);
        }
    }
    // validate / predict after a `learn` that stopped early (and one that ran to the end) on networks with dropout
    early_stopped_dropout_learn(g, "after-learn");
    // the tolerance rule at its boundary: identity networks (prediction = input exactly), differences exactly equal to,
    // one unit in the last place below and above the tolerance, on both sides of the target, single and multi output
    {
        let ident = |n: usize| -> NetSpec {
            let w = Tensor::double((0..n).map(|i| (0..n).map(|j| if i == j { 1.0 } else { 0.0 }).collect()).collect());
            NetSpec { input: Shape::Single(n), builds: vec![Build::Layer(InnerSpec::Dense { out: n, act: "linear".into(), bias: false, dropout: None, w, b: None })],
                skipacc: "add".into(), loopacc: "mean".into(), opt: None, obj: "mse".into(), clamp: None }
        };
        let tol = 0.25f32;
        let below = f32::from_bits(tol.to_bits() - 1);
        let above = f32::from_bits(tol.to_bits() + 1);
        let offs = [tol, -tol, below, -below, above, -above, 0.0, 2.0, -2.0];
        // multi-output: 3 components per sample
        let net3 = ident(3);
        let mut v = Vec::new();
        for a in 0..offs.len() {
            let x = vec![0.5f32, -1.0, 2.0];
            let t: Vec<f32> = (0..3).map(|c| x[c] + offs[(a + c) % offs.len()]).collect();
            v.push(format!("{} {}", qt(&Tensor::single(x)), qt(&Tensor::single(t))));
        }
        g.push(format!("net {} validate {} {} {} 0", net3.token(), offs.len(), v.join(" "), hx(tol)), Tol::Tight, "validate/tolerance-boundary/multi", true);
        // single output
        let net1 = ident(1);
        let mut v = Vec::new();
        for o in offs.iter() {
            v.push(format!("{} {}", qt(&Tensor::single(vec![1.0])), qt(&Tensor::single(vec![1.0 + *o]))));
        }
        g.push(format!("net {} validate {} {} {} 0", net1.token(), offs.len(), v.join(" "), hx(tol)), Tol::Tight, "validate/tolerance-boundary/single", true);
        // tolerances below the rounding unit, zero, negative and NaN are used AS GIVEN: predictions that equal the target
        // exactly or to one unit in the last place are within the tolerance only if `|t - p| < tol` says so
        let up = |v: f32, k: i32| f32::from_bits((v.to_bits() as i32 + k) as u32);
        for tiny in [0.0f32, 1e-9, f32::from_bits(1), -1.0, f32::NAN, 6e-8, f32::EPSILON] {
            let mut v = Vec::new();
            for a in 0..8usize {
                let x = vec![0.5f32, -1.0, 2.0];
                let t: Vec<f32> = (0..3).map(|c| match (a + c) % 4 { 0 => x[c], 1 => up(x[c], 1), 2 => up(x[c], -1), _ => x[c] + 0.5 }).collect();
                v.push(format!("{} {}", qt(&Tensor::single(x)), qt(&Tensor::single(t))));
            }
            g.push(format!("net {} validate 8 {} {} 0", net3.token(), v.join(" "), hx(tiny)), Tol::Tight, "validate/tiny-tolerance/multi", true);
            let mut v = Vec::new();
            for a in 0..70usize {
                let t = match a % 4 { 0 => 1.0f32, 1 => up(1.0, 1), 2 => up(1.0, -1), _ => 1.5 };
                v.push(format!("{} {}", qt(&Tensor::single(vec![1.0])), qt(&Tensor::single(vec![t]))));
            }
            g.push(format!("net {} validate 70 {} {} 0", net1.token(), v.join(" "), hx(tiny)), Tol::Tight, "validate/tiny-tolerance/single", true);
        }
        // inputs that differ only far below their neighbours' scale (a few 1e-6 apart) through a network that amplifies
        // them: every input has its OWN prediction
        let amp = |n: usize| -> NetSpec {
            let w = Tensor::double((0..n).map(|i| (0..n).map(|j| if i == j { 1.0e6 } else { 0.0 }).collect()).collect());
            NetSpec { input: Shape::Single(n), builds: vec![Build::Layer(InnerSpec::Dense { out: n, act: "tanh".into(), bias: false, dropout: None, w, b: None })],
                skipacc: "add".into(), loopacc: "mean".into(), opt: None, obj: "mse".into(), clamp: None }
        };
        for n in [5usize, 70] {
            let neta = amp(2);
            let xs: Vec<String> = (0..n).map(|i| qt(&Tensor::single(vec![1e-6 * (i % 7) as f32 - 2e-6, 5e-7 * ((i * 3) % 5) as f32]))).collect();
            g.push(format!("net {} predict_batch {} {}", neta.token(), n, xs.join(" ")), Tol::Tight, &format!("predict_batch/near-duplicate-inputs/{}", n), true);
            let ys: Vec<String> = (0..n).map(|i| qt(&Tensor::single(vec![0.25 + 1e-6 * (i % 3) as f32, -0.5]))).collect();
            g.push(format!("net {} predict_batch {} {}", ident(2).token(), n, ys.join(" ")), Tol::Exact, &format!("predict_batch/near-duplicate-inputs/identity/{}", n), true);
        }
    }
    // networks with loop connections, skip connections and feedback blocks: predict / predict_batch / validate must
    // still be the final activation of forward and its faithful aggregations
    for variant in 0..g.n(6, 24) {
        let cfgs = ArchCfg { wscale: 0.4, acts: vec!["tanh", "sigmoid", "linear"], ..ArchCfg::small() };
        let (mut net, out) = skip_net(g, &cfgs, 4, 3, false);
        match variant % 3 {
            0 => { net.builds.push(Build::Loopback { outof: 1 + variant % 2, into: 0, iterations: 1 + variant % 3, scale: "inv".into(), inskips: variant % 2 == 0 }); }
            1 => { net.builds.push(Build::Connect(0, 2)); net.builds.push(Build::Loopback { outof: 3, into: 1, iterations: 2, scale: "inv".into(), inskips: false }); }
            _ => { net.builds.push(Build::Connect(1, 3)); }
        }
        net.loopacc = ACCS[variant % ACCS.len()].to_string();
        net.skipacc = ACCS[(variant / 2) % ACCS.len()].to_string();
        for n in [3usize, 70] {
            let xs: Vec<String> = (0..n).map(|_| { let x = input_for(g, &net.input); qt(&x) }).collect();
            g.push(format!("net {} predict_batch {} {}", net.token(), n, xs.join(" ")), Tol::Tight, &format!("predict_batch/loops-and-skips/{}", n), true);
            let s = samples_tok(g, &net, &out, n);
            g.push(format!("net {} validate {} {} {} 0", net.token(), n, s, hx(0.3)), Tol::Tight, &format!("validate/loops-and-skips/{}", n), true);
        }
    }
    for variant in 0..g.n(2, 8) {
        let cfgb = ArchCfg { wscale: 0.5, acts: vec!["tanh", "sigmoid", "linear", "relu"], ..ArchCfg::small() };
        let (net, out) = block_net(g, &cfgb, 1 + variant % 3, variant % 2 == 0, variant % 3 == 0, ACCS[variant % ACCS.len()], variant % 2 == 1, true, false);
        let n = 5;
        let xs: Vec<String> = (0..n).map(|_| { let x = input_for(g, &net.input); qt(&x) }).collect();
        g.push(format!("net {} predict_batch {} {}", net.token(), n, xs.join(" ")), Tol::Tight, "predict_batch/feedback-block", true);
        let s = samples_tok(g, &net, &out, n);
        g.push(format!("net {} validate {} {} {} 0", net.token(), n, s, hx(0.3)), Tol::Tight, "validate/feedback-block", true);
    }
    // validate called while the training flags are on (as `learn` does every epoch), on networks with dropout inside
    // and outside feedback blocks: still the mean loss / accuracy of the network's (inference-mode) predictions
    for variant in 0..g.n(4, 12) {
        let cfgd = ArchCfg { wscale: 0.5, acts: vec!["tanh", "sigmoid", "linear"], dropout: false, ..ArchCfg::small() };
        let mut inner = dense_spec(g, &cfgd, 3, 3, "tanh", true);
        if let InnerSpec::Dense { dropout, .. } = &mut inner { *dropout = Some(0.5); }
        let mut first = dense_spec(g, &cfgd, 3, 3, "tanh", true);
        if variant % 2 == 0 { if let InnerSpec::Dense { dropout, .. } = &mut first { *dropout = Some(0.3); } }
        let builds = vec![Build::Layer(first), Build::Feedback { inner: vec![inner], loops: 1 + variant % 3, inskips: false, outskips: false, acc: "mean".into() },
            Build::Layer(dense_spec(g, &cfgd, 3, 2, "linear", true))];
        let net = NetSpec { input: Shape::Single(3), builds, skipacc: "add".into(), loopacc: "mean".into(), opt: None, obj: "mse".into(), clamp: None };
        for n in [1usize, 5, 65] {
            let s = samples_tok(g, &net, &Sh::Flat(2), n);
            g.push(format!("net {} validate {} {} {} 1", net.token(), n, s, hx(0.3)), Tol::Tight, &format!("validate/training-flags-on/{}", n), true);
        }
    }
    // … and with dropout on every KIND of layer (dense, convolution, deconvolution; top level and inside a block), several
    // dropout layers in a row (each of them is switched off for the evaluation, not only the first)
    for kind in 0..5usize {
        let cfgd = ArchCfg { wscale: 0.5, acts: vec!["tanh", "sigmoid", "linear"], dropout: false, ..ArchCfg::small() };
        let conv = |g: &mut Gen, ch: usize| InnerSpec::Conv { filters: 1, act: "tanh".into(), k: (3, 3), s: (1, 1), p: (1, 1), d: (1, 1), dropout: Some(0.5), ks: vec![weights(g, &Shape::Triple(ch, 3, 3), 0.4)] };
        let deconv = |g: &mut Gen| InnerSpec::Deconv { filters: 1, act: "tanh".into(), k: (3, 3), s: (1, 1), p: (1, 1), dropout: Some(0.5), ks: vec![weights(g, &Shape::Triple(1, 3, 3), 0.4)] };
        let mut head = dense_spec(g, &cfgd, 9, 2, "linear", true);
        if let InnerSpec::Dense { dropout, .. } = &mut head { *dropout = Some(0.25); }
        let builds: Vec<Build> = match kind {
            0 => vec![Build::Layer(conv(g, 1)), Build::Layer(head)],
            1 => vec![Build::Layer(deconv(g)), Build::Layer(head)],
            2 => vec![Build::Layer(conv(g, 1)), Build::Layer(deconv(g)), Build::Layer(head)],
            3 => vec![Build::Layer(deconv(g)), Build::Layer(conv(g, 1)), Build::Layer(head)],
            _ => vec![Build::Feedback { inner: vec![deconv(g)], loops: 2, inskips: false, outskips: false, acc: "mean".into() }, Build::Layer(conv(g, 1)), Build::Layer(head)],
        };
        let net = NetSpec { input: Shape::Triple(1, 3, 3), builds, skipacc: "add".into(), loopacc: "mean".into(), opt: Some(OptSpec::Sgd(0.05, None)), obj: "mse".into(), clamp: None };
        for n in [3usize, 70] {
            if !g.ctx.thorough() && n == 70 && kind % 2 == 1 { continue; }
            let s = samples_tok(g, &net, &Sh::Flat(2), n);
            g.push(format!("net {} validate {} {} {} 1", net.token(), n, s, hx(0.3)), Tol::Tight, &format!("validate/training-flags-on/kind{}/{}", kind, n), true);
            g.push(format!("net {} validate {} {} {} 0", net.token(), n, s, hx(0.3)), Tol::Tight, &format!("validate/kind{}/{}", kind, n), true);
        }
        let s = samples_tok(g, &net, &Sh::Flat(2), 3);
        let v = samples_tok(g, &net, &Sh::Flat(2), 2);
        g.push(format!("net {} learn 3 {} 1 2 {} 5 2 2 0", net.token(), s, v), Tol::Loose, &format!("learn-with-validation/kind{}", kind), true);
    }
    // arg-max ties and single-output accuracy at the tolerance boundary
    let cfg1 = ArchCfg { final_dense: Some(1), max_layers: 1, flat_input: Some(true), conv: false, deconv: false, pool: false, ..ArchCfg::small() };
    for _ in 0..g.n(10, 100) {
        let (net, out) = random_net(g, &cfg1);
        let s = samples_tok(g, &net, &out, 5);
        g.push(format!("net {} validate 5 {} {} 0", net.token(), s, hx(0.5)), Tol::Tight, "validate/single-output", true);
    }
    let empty = {
        let (net, _) = random_net(g, &cfg);
        format!("net {} predict_batch 0", net.token())
    };
    g.push(empty, Tol::Tight, "predict_batch/0", true);
}

/* ---------------- C13 ---------------- */

fn one_param_net(w: f32, lr: f32) -> NetSpec {
    NetSpec {
        input: Shape::Single(1),
        builds: vec![Build::Layer(InnerSpec::Dense { out: 1, act: "linear".into(), bias: false, dropout: None, w: Tensor::double(vec![vec![w]]), b: None })],
        skipacc: "add".into(), loopacc: "mean".into(), opt: Some(OptSpec::Sgd(lr, None)), obj: "mse".into(), clamp: None,
    }
}

pub fn c13(g: &mut Gen) {
    let sample = "S 1 3f800000 S 1 00000000"; // x = 1, target 0: loss = w^2
    let maxlen = g.n(5, 7);
    let tmax = g.n(4, 5);
    // scripted trajectories: every word over {1,2,3} up to a length (thinned in the quick tier)
    let mut count = 0u64;
    for len in 1..=maxlen {
        let total = 3usize.pow(len as u32);
        for code in 0..total {
            count += 1;
            if !g.ctx.thorough() && len >= 4 && (count % 7 != 0) { continue; }
            if g.ctx.thorough() && len >= 6 && (count % 5 != 0) { continue; }
            let mut c = code;
            let script: Vec<f32> = (0..len).map(|_| { let d = c % 3; c /= 3; (d + 1) as f32 }).collect();
            for t in 1..=tmax {
                // epoch budget: exactly the script length, or longer/shorter
                for e in [len, len + 2, (len + 1) / 2] {
                    if e == 0 { continue; }
                    if (count + t as u64 + e as u64) % 3 != 0 && len >= 3 { continue; }
                    let net = one_param_net(0.5, 0.01);
                    g.push(format!("net {} learn 1 {} 1 1 {} {} 1 {} {} {}", net.token(), sample, sample, t, e, script.len(), q1(&script)),
                        Tol::Tight, &format!("scripted/len{}/T{}", len, t), true);
                }
            }
        }
    }
    // plateaus, NaN-free special scripts, tolerance 0 (underflow), no validation data
    let specials: Vec<Vec<f32>> = vec![vec![2.0; 6], vec![1.0, 2.0, 2.0, 3.0, 3.0, 4.0], vec![5.0, 4.0, 3.0, 2.0, 1.0, 0.5], vec![1.0, 2.0, 3.0, 4.0, 5.0, 6.0], vec![1.0, 3.0, 2.0, 4.0, 3.0, 5.0]];
    for s in &specials {
        for t in 0..=4 {
            let net = one_param_net(0.5, 0.01);
            g.push(format!("net {} learn 1 {} 1 1 {} {} 1 6 {} {}", net.token(), sample, sample, t, s.len(), q1(s)), Tol::Tight, &format!("special/T{}", t), true);
        }
    }
    for e in 1..=5 {
        let net = one_param_net(0.5, 0.01);
        g.push(format!("net {} learn 1 {} 0 1 {} 0", net.token(), sample, e), Tol::Tight, "no-validation", true);
    }
    // scale-free comparison: rises and falls of one unit in the last place, rises of tiny and of huge magnitude,
    // infinities (a rise is `>` on the recorded values, whatever their size)
    let up = |v: f32, k: u32| f32::from_bits(v.to_bits() + k);
    let fine: Vec<Vec<f32>> = vec![
        vec![0.3, up(0.3, 1), up(0.3, 2), up(0.3, 3), up(0.3, 4), up(0.3, 5)],
        vec![0.3, up(0.3, 1), up(0.3, 1), up(0.3, 2), up(0.3, 3), up(0.3, 4)],
        vec![up(0.3, 5), up(0.3, 4), up(0.3, 3), up(0.3, 4), up(0.3, 5), up(0.3, 6)],
        vec![1e-8, 2e-8, 3e-8, 4e-8, 5e-8, 6e-8],
        vec![1e-30, 2e-30, 3e-30, 2e-30, 3e-30, 4e-30],
        vec![f32::from_bits(1), f32::from_bits(2), f32::from_bits(3), f32::from_bits(4), f32::from_bits(5), f32::from_bits(6)],
        vec![1e30, 2e30, 3e30, 4e30, 5e30, 6e30],
        vec![1.0, 2.0, f32::INFINITY, f32::INFINITY, f32::INFINITY, f32::INFINITY],
        vec![0.0, -0.0, 0.0, 1e-45, 2e-45, 3e-45],
    ];
    for s in &fine {
        for t in 1..=4 {
            for e in [6usize, 10] {
                let net = one_param_net(0.5, 0.01);
                g.push(format!("net {} learn 1 {} 1 1 {} {} 1 {} {} {}", net.token(), sample, sample, t, e, s.len(), q1(s)), Tol::Tight, &format!("fine-rises/T{}", t), true);
            }
        }
    }
    // infinite (and negative-infinite) losses INSIDE a trajectory: they are recorded epochs like any other — the window is
    // the last `tolerance` recorded epochs, and a rise into +inf is a rise
    {
        let inf = f32::INFINITY;
        let scripts: Vec<Vec<f32>> = vec![vec![5.0, 1.0, 2.0, inf, 3.0, 4.0, 5.0, 6.0], vec![9.0, 1.0, inf, 2.0, 3.0, 0.5, 1.0, 2.0], vec![inf, inf, 3.0, 2.0, 1.0, 2.0, 3.0, 4.0],
            vec![3.0, 2.0, inf, 1.0, 2.0, 3.0, 4.0, 5.0], vec![-inf, 1.0, 2.0, 3.0, inf, inf, 1.0, 2.0], vec![1.0, inf, 2.0, inf, 3.0, inf, 4.0, inf], vec![2.0, 1.0, -inf, 0.0, 1.0, 2.0, 3.0, 4.0]];
        for s in &scripts {
            for t in 1..=4 {
                let net = one_param_net(0.5, 0.01);
                g.push(format!("net {} learn 1 {} 1 1 {} {} 1 8 {} {}", net.token(), sample, sample, t, s.len(), q1(s)), Tol::Tight, &format!("infinite-losses/T{}", t), true);
            }
        }
    }
    // scripted plateaus and ties while the measured validation ACCURACY changes (lr = 0.5 fits the sample exactly after one
    // step: accuracy 0 in epoch 1, 1 from epoch 2 on; lr = 1 alternates): the stop test looks at the losses alone
    // (lr = 0.4375: the weight shrinks by 1/8 per epoch, 0.5 * 8^-k: the prediction comes within validate's 1e-6 of the
    // target in epoch 7 — accuracy 0 up to epoch 6, 1 from epoch 7 on, in the middle of the scripted plateau)
    for lr in [0.4375f32, 0.5, 1.0, 0.25] {
        for s in [vec![1.0f32; 12], vec![5.0, 2.0, 2.0, 3.0, 1.0, 1.0, 1.0, 1.0, 1.0, 1.0, 1.0, 1.0], vec![2.0, 2.0, 3.0, 3.0, 4.0, 4.0, 5.0, 5.0, 6.0, 6.0, 7.0, 7.0],
                  vec![1.0, 1.0, 2.0, 2.0, 2.0, 3.0, 3.0, 3.0, 3.0, 4.0, 4.0, 4.0], vec![3.0, 3.0, 3.0, 3.0, 3.0, 2.0, 2.0, 2.0, 2.0, 2.0, 2.0, 2.0]] {
            for t in 1..=4 {
                if !g.ctx.thorough() && lr != 0.4375 && t == 4 { continue; }
                let net = one_param_net(0.5, lr);
                g.push(format!("net {} learn 1 {} 1 1 {} {} 1 12 {} {}", net.token(), sample, sample, t, s.len(), q1(&s)), Tol::Tight, &format!("plateau-with-changing-accuracy/T{}", t), true);
            }
        }
    }
    // a SECOND run on the same network: the first run's outcome (stopped early or not) leaves nothing behind that the second
    // run's stopping decision could see — the same trajectory stops at the same epoch again; without validation data every
    // epoch runs again
    for s in [vec![1.0f32, 2.0, 3.0, 4.0, 5.0, 6.0], vec![5.0, 4.0, 3.0, 4.0, 5.0, 6.0], vec![5.0, 4.0, 3.0, 2.0, 1.0, 0.5], vec![2.0, 2.0, 3.0, 4.0, 4.0, 5.0]] {
        for t in 1..=3 {
            for e in [6usize, 4] {
                let net = one_param_net(0.5, 0.01);
                g.push(format!("net {} relearn 1 {} 1 1 {} {} 1 {} {} {}", net.token(), sample, sample, t, e, s.len(), q1(&s)), Tol::Tight, &format!("second-run/T{}", t), true);
            }
        }
    }
    for e in [1usize, 3, 6] {
        let net = one_param_net(0.5, 0.01);
        g.push(format!("net {} relearn 1 {} 0 1 {} 0", net.token(), sample, e), Tol::Tight, "second-run/no-validation", true);
    }
    // STRICTLY RISING windows that straddle the epoch at which the measured accuracy jumps from 0 to 1 (lr = 0.4375: epoch 7;
    // lr = 0.5: epoch 2): the stop test looks at the losses alone, whatever the accuracy does meanwhile
    for (lr, scripts) in [(0.4375f32, vec![vec![9.0f32, 8.0, 7.0, 6.0, 5.0, 1.0, 2.0, 3.0, 4.0, 5.0, 6.0, 7.0], vec![9.0, 8.0, 7.0, 6.0, 1.0, 2.0, 3.0, 4.0, 5.0, 6.0, 7.0, 8.0],
                                            vec![9.0, 8.0, 7.0, 1.0, 2.0, 3.0, 4.0, 5.0, 6.0, 7.0, 8.0, 9.0], vec![1.0, 2.0, 1.0, 2.0, 1.0, 2.0, 3.0, 4.0, 5.0, 6.0, 7.0, 8.0]]),
                          (0.5f32, vec![vec![1.0f32, 2.0, 3.0, 4.0, 5.0, 6.0, 7.0, 8.0, 9.0, 10.0, 11.0, 12.0], vec![2.0, 1.0, 2.0, 3.0, 4.0, 5.0, 6.0, 7.0, 8.0, 9.0, 10.0, 11.0]])] {
        for s in scripts.iter() {
            for t in 1..=4 {
                let net = one_param_net(0.5, lr);
                g.push(format!("net {} learn 1 {} 1 1 {} {} 1 12 {} {}", net.token(), sample, sample, t, s.len(), q1(s)), Tol::Tight, &format!("rising-across-accuracy-jump/T{}", t), true);
            }
        }
    }
    // several training samples in groups that do not divide them (3 / 2, 5 / 2, 7 / 3, 5 / 4, 3 / 5): still ONE training-loss entry
    // per epoch, and as many validation entries
    for (n, b) in [(3usize, 2usize), (5, 2), (7, 3), (5, 4), (3, 5), (4, 2)] {
        let many: Vec<String> = (0..n).map(|i| format!("S 1 {} S 1 {}", hx(1.0 + 0.25 * i as f32), hx(0.0))).collect();
        for (t, e, s) in [(2usize, 5usize, vec![1.0f32, 2.0, 3.0, 4.0, 5.0]), (2, 4, vec![4.0, 3.0, 2.0, 1.0]), (1, 3, vec![2.0, 2.0, 2.0])] {
            let net = one_param_net(0.5, 0.01);
            g.push(format!("net {} learn {} {} 1 1 {} {} {} {} {} {}", net.token(), n, many.join(" "), sample, t, b, e, s.len(), q1(&s)), Tol::Tight, &format!("several-samples/N{}/B{}", n, b), true);
        }
        let net = one_param_net(0.5, 0.01);
        g.push(format!("net {} learn {} {} 0 {} 3 0", net.token(), n, many.join(" "), b), Tol::Tight, &format!("several-samples/no-validation/N{}/B{}", n, b), true);
    }
    // hook-free family: the error contracts (lr < 1) or expands (lr > 1) by |1 - 2 lr| per epoch, or oscillates around a plateau
    for lr in [0.1f32, 0.4, 0.5, 0.9, 1.0, 1.05, 1.2, 1.5] {
        for t in 1..=3 {
            let net = one_param_net(0.5, lr);
            g.push(format!("net {} learn 1 {} 1 1 {} {} 1 7 0", net.token(), sample, sample, t), Tol::Tight, "hook-free", true);
        }
    }
    // seeded random stream: random scripts with ties
    for _ in 0..g.n(100, 3000) {
        let len = g.rng().range(1, 9);
        let script: Vec<f32> = (0..len).map(|_| g.rng().range(1, 4) as f32 * 0.5).collect();
        let t = g.rng().range(1, 5);
        let e = g.rng().range(1, 10);
        let net = one_param_net(0.5, 0.01);
        g.push(format!("net {} learn 1 {} 1 1 {} {} 1 {} {} {}", net.token(), sample, sample, t, e, script.len(), q1(&script)), Tol::Tight, "random-script", true);
    }
}

/* ---------------- C09 ---------------- */

pub fn c09(g: &mut Gen) {
    let cfg = ArchCfg { final_dense: Some(3), max_layers: 5, max_dim: 4, dropout: true, ..ArchCfg::small() };
    // deterministic core: 1, 2, 3 dense layers with dropout everywhere; conv first; feedback block
    for depth in 1..=3usize {
        let c = ArchCfg { conv: false, deconv: false, pool: false, flat_input: Some(true), ..cfg.clone() };
        let mut builds = Vec::new();
        let mut n = 3;
        for _ in 0..depth {
            let mut d = dense_spec(g, &c, n, 3, "tanh", true);
            if let InnerSpec::Dense { dropout, .. } = &mut d { *dropout = Some(0.5); }
            builds.push(Build::Layer(d));
            n = 3;
        }
        let net = NetSpec { input: Shape::Single(3), builds, skipacc: "add".into(), loopacc: "mean".into(), opt: Some(OptSpec::Sgd(0.05, None)), obj: "mse".into(), clamp: None };
        let s = samples_tok(g, &net, &Sh::Flat(3), 4);
        // (an all-zero sample among the data: what a layer does outside training does not depend on the VALUES it is fed)
        let zs = format!("{} {} {}", qt(&Tensor::single(vec![0.0, 0.0, 0.0])), qt(&Tensor::single(vec![0.5, -0.25, 0.125])), samples_tok(g, &net, &Sh::Flat(3), 2));
        g.push(format!("net {} validate 3 {} {} 0", net.token(), zs, hx(0.1)), Tol::Tight, &format!("dense-x{}/validate/zero-sample", depth), true);
        g.push(format!("net {} validate 3 {} {} 1", net.token(), zs, hx(0.1)), Tol::Tight, &format!("dense-x{}/validate-while-training/zero-sample", depth), true);
        g.push(format!("net {} predict {}", net.token(), qt(&Tensor::single(vec![0.0, 0.0, 0.0]))), Tol::Tight, &format!("dense-x{}/predict/zero-sample", depth), true);
        g.push(format!("net {} learn 3 {} 1 3 {} 5 2 2 0", net.token(), zs, zs), Tol::Loose, &format!("dense-x{}/learn-with-validation/zero-sample", depth), true);
        g.push(format!("net {} validate 4 {} {} 1", net.token(), s, hx(0.1)), Tol::Tight, &format!("dense-x{}/validate-while-training", depth), true);
        g.push(format!("net {} validate 4 {} {} 0", net.token(), s, hx(0.1)), Tol::Tight, &format!("dense-x{}/validate", depth), true);
        let v = samples_tok(g, &net, &Sh::Flat(3), 3);
        g.push(format!("net {} learn 4 {} 1 3 {} 5 2 3 0", net.token(), s, v), Tol::Loose, &format!("dense-x{}/learn-with-validation", depth), true);
        g.push(format!("net {} learn 4 {} 0 2 2 0", net.token(), s), Tol::Loose, &format!("dense-x{}/learn", depth), true);
        // early stopping fires (scripted rising validation loss): the flags must be off afterwards all the same
        for (thr, script) in [(2usize, vec![1.0f32, 2.0, 3.0, 4.0, 5.0, 6.0]), (3, vec![3.0, 1.0, 2.0, 3.0, 4.0, 5.0]), (1, vec![1.0, 1.0, 1.0, 1.0])] {
            g.push(format!("net {} learn 4 {} 1 3 {} {} 2 {} {} {}", net.token(), s, v, thr, script.len(), script.len(), q1(&script)),
                Tol::Loose, &format!("dense-x{}/learn-early-stop", depth), true);
        }
        // `learn` entered with the flags already set (an interrupted earlier run, a caller that set them): it still
        // returns with every flag off
        g.push(format!("net {} learnon 4 {} 1 3 {} 5 2 3 0", net.token(), s, v), Tol::Loose, &format!("dense-x{}/learn-entered-with-flags-on", depth), true);
        g.push(format!("net {} learnon 4 {} 0 2 2 0", net.token(), s), Tol::Loose, &format!("dense-x{}/learn-entered-with-flags-on", depth), true);
        // zero epochs: nothing is trained, and the network still comes back in inference mode
        g.push(format!("net {} learn 4 {} 0 2 0 0", net.token(), s), Tol::Loose, &format!("dense-x{}/learn-zero-epochs", depth), true);
        g.push(format!("net {} learn 4 {} 1 3 {} 5 2 0 0", net.token(), s, v), Tol::Loose, &format!("dense-x{}/learn-zero-epochs", depth), true);
        g.push(format!("net {} learnon 4 {} 0 2 0 0", net.token(), s), Tol::Loose, &format!("dense-x{}/learn-zero-epochs-entered-with-flags-on", depth), true);
        g.push(format!("net {} learnon 4 {} 1 3 {} 2 2 6 6 {}", net.token(), s, v, q1(&[1.0f32, 2.0, 3.0, 4.0, 5.0, 6.0])), Tol::Loose,
            &format!("dense-x{}/learn-entered-with-flags-on", depth), true);
    }
    // the dropout rate at its boundaries (1, one unit in the last place below 1, 0): outside training the rate of a layer
    // is never looked at, whatever the layer kind
    for (ri, rate) in [1.0f32, f32::from_bits(1.0f32.to_bits() - 1), 0.0, f32::INFINITY, 2.0, f32::MAX].iter().enumerate() {
        for kind in 0..3usize {
            let c = ArchCfg { dropout: false, ..cfg.clone() };
            let (first, count): (InnerSpec, usize) = match kind {
                0 => (InnerSpec::Conv { filters: 2, act: "tanh".into(), k: (2, 2), s: (1, 1), p: (0, 0), d: (1, 1), dropout: Some(*rate),
                    ks: (0..2).map(|_| weights(g, &Shape::Triple(1, 2, 2), 0.5)).collect() }, 2 * 2 * 2),
                1 => (InnerSpec::Deconv { filters: 1, act: "sigmoid".into(), k: (2, 2), s: (1, 1), p: (0, 0), dropout: Some(*rate),
                    ks: vec![weights(g, &Shape::Triple(1, 2, 2), 0.5)] }, 4 * 4),
                _ => {
                    let mut d = dense_spec(g, &c, 9, 4, "tanh", true);
                    if let InnerSpec::Dense { dropout, .. } = &mut d { *dropout = Some(*rate); }
                    (d, 4)
                }
            };
            let builds = vec![Build::Layer(first), Build::Layer(dense_spec(g, &c, count, 2, "tanh", true))];
            let net = NetSpec { input: if kind == 2 { Shape::Single(9) } else { Shape::Triple(1, 3, 3) }, builds, skipacc: "add".into(), loopacc: "mean".into(),
                opt: Some(OptSpec::Sgd(0.05, None)), obj: "mse".into(), clamp: None };
            let s = samples_tok(g, &net, &Sh::Flat(2), 3);
            g.push(format!("net {} validate 3 {} {} 0", net.token(), s, hx(0.1)), Tol::Tight, &format!("rate-boundary{}/kind{}/validate", ri, kind), true);
            g.push(format!("net {} validate 3 {} {} 1", net.token(), s, hx(0.1)), Tol::Tight, &format!("rate-boundary{}/kind{}/validate-while-training", ri, kind), true);
        }
    }
    // every top-level layer kind with dropout (dense, convolution, deconvolution), alone and after one another:
    // validate while the flags are on, learn with validation, learn without
    for kind in 0..4usize {
        let c = ArchCfg { dropout: false, ..cfg.clone() };
        let conv = |g: &mut Gen| InnerSpec::Conv { filters: 2, act: "tanh".into(), k: (2, 2), s: (1, 1), p: (0, 0), d: (1, 1), dropout: Some(0.5),
            ks: (0..2).map(|_| weights(g, &Shape::Triple(1, 2, 2), 0.5)).collect() };
        let deconv = |g: &mut Gen, ch: usize| InnerSpec::Deconv { filters: 1, act: "sigmoid".into(), k: (2, 2), s: (1, 1), p: (0, 0), dropout: Some(0.5),
            ks: vec![weights(g, &Shape::Triple(ch, 2, 2), 0.5)] };
        let (builds, count): (Vec<Build>, usize) = match kind {
            0 => (vec![Build::Layer(conv(g))], 2 * 2 * 2),
            1 => (vec![Build::Layer(deconv(g, 1))], 4 * 4),
            2 => (vec![Build::Layer(conv(g)), Build::Layer(deconv(g, 2))], 3 * 3),
            _ => (vec![Build::Layer(deconv(g, 1)), Build::Layer(InnerSpec::Conv { filters: 1, act: "tanh".into(), k: (2, 2), s: (1, 1), p: (0, 0), d: (1, 1), dropout: Some(0.5),
                ks: vec![weights(g, &Shape::Triple(1, 2, 2), 0.5)] })], 3 * 3),
        };
        let mut builds = builds;
        let mut last = dense_spec(g, &c, count, 2, "tanh", true);
        if let InnerSpec::Dense { dropout, .. } = &mut last { *dropout = Some(0.5); }
        builds.push(Build::Layer(last));
        let net = NetSpec { input: Shape::Triple(1, 3, 3), builds, skipacc: "add".into(), loopacc: "mean".into(), opt: Some(OptSpec::Sgd(0.05, None)), obj: "mse".into(), clamp: None };
        let s = samples_tok(g, &net, &Sh::Flat(2), 3);
        let v = samples_tok(g, &net, &Sh::Flat(2), 2);
        g.push(format!("net {} validate 3 {} {} 1", net.token(), s, hx(0.1)), Tol::Tight, &format!("spatial-kind{}/validate-while-training", kind), true);
        g.push(format!("net {} validate 3 {} {} 0", net.token(), s, hx(0.1)), Tol::Tight, &format!("spatial-kind{}/validate", kind), true);
        g.push(format!("net {} learn 3 {} 1 2 {} 5 2 2 0", net.token(), s, v), Tol::Loose, &format!("spatial-kind{}/learn-with-validation", kind), true);
        g.push(format!("net {} learn 3 {} 0 2 2 0", net.token(), s), Tol::Loose, &format!("spatial-kind{}/learn", kind), true);
    }
    // a feedback block WITHOUT any flag-carrying layer (max-pool only) next to a layer with dropout: "no flag set" is not
    // "every flag set" — validate outside training leaves the network in inference mode
    for (ri, rate) in [0.5f32, 1.0].iter().enumerate() {
        let c = ArchCfg { dropout: false, ..cfg.clone() };
        let conv = InnerSpec::Conv { filters: 1, act: "tanh".into(), k: (1, 1), s: (1, 1), p: (0, 0), d: (1, 1), dropout: Some(*rate), ks: vec![weights(g, &Shape::Triple(1, 1, 1), 0.8)] };
        let builds = vec![Build::Layer(conv), Build::Feedback { inner: vec![InnerSpec::Maxpool { k: (1, 1), s: (1, 1) }], loops: 1 + ri, inskips: false, outskips: false, acc: "add".into() },
            Build::Layer(dense_spec(g, &c, 9, 2, "tanh", true))];
        let net = NetSpec { input: Shape::Triple(1, 3, 3), builds, skipacc: "add".into(), loopacc: "mean".into(), opt: Some(OptSpec::Sgd(0.05, None)), obj: "mse".into(), clamp: None };
        let s = samples_tok(g, &net, &Sh::Flat(2), 3);
        g.push(format!("net {} validate 3 {} {} 0", net.token(), s, hx(0.1)), Tol::Tight, "flagless-block/validate", true);
        g.push(format!("net {} validate 3 {} {} 1", net.token(), s, hx(0.1)), Tol::Tight, "flagless-block/validate-while-training", true);
    }
    // a training call with an epoch budget of ZERO (with and without validation data, also entered with every flag already on):
    // nothing is trained, and the network it returns predicts without dropout like after any other call
    for kind in 0..3usize {
        let c = ArchCfg { dropout: false, ..cfg.clone() };
        let mut d1 = dense_spec(g, &c, 3, 5, "tanh", true);
        if let InnerSpec::Dense { dropout, .. } = &mut d1 { *dropout = Some(0.5); }
        let builds = match kind {
            0 => vec![Build::Layer(d1), Build::Layer(dense_spec(g, &c, 5, 2, "tanh", true))],
            1 => { let mut b = dense_spec(g, &c, 3, 3, "tanh", true); if let InnerSpec::Dense { dropout, .. } = &mut b { *dropout = Some(0.5); }
                   vec![Build::Feedback { inner: vec![b], loops: 2, inskips: false, outskips: false, acc: "mean".into() }, Build::Layer(dense_spec(g, &c, 3, 2, "tanh", true))] }
            _ => vec![Build::Layer(d1), Build::Layer({ let mut m = dense_spec(g, &c, 5, 5, "tanh", false); if let InnerSpec::Dense { dropout, .. } = &mut m { *dropout = Some(0.25); } m }),
                      Build::Layer(dense_spec(g, &c, 5, 2, "tanh", true))],
        };
        let net = NetSpec { input: Shape::Single(3), builds, skipacc: "add".into(), loopacc: "mean".into(), opt: Some(OptSpec::Sgd(0.05, None)), obj: "mse".into(), clamp: None };
        let s = samples_tok(g, &net, &Sh::Flat(2), 3);
        let v = samples_tok(g, &net, &Sh::Flat(2), 2);
        g.push(format!("net {} learn 3 {} 0 2 0 0", net.token(), s), Tol::Loose, "zero-epochs/learn", true);
        g.push(format!("net {} learn 3 {} 1 2 {} 5 2 0 0", net.token(), s, v), Tol::Loose, "zero-epochs/learn-with-validation", true);
        g.push(format!("net {} learnon 3 {} 0 2 0 0", net.token(), s), Tol::Loose, "zero-epochs/learn-entered-with-flags-on", true);
    }
    // a network that STARTS with a layer without a flag (a max-pool on the image) and has dropout further on
    for kind in 0..2usize {
        let c = ArchCfg { dropout: false, ..cfg.clone() };
        let mut d1 = dense_spec(g, &c, 4, 6, "tanh", true);
        if let InnerSpec::Dense { dropout, .. } = &mut d1 { *dropout = Some(0.5); }
        let mut builds = vec![Build::Layer(InnerSpec::Maxpool { k: (2, 2), s: (2, 2) })];
        if kind == 1 { builds.push(Build::Layer(InnerSpec::Maxpool { k: (1, 1), s: (1, 1) })); }
        builds.push(Build::Layer(d1));
        builds.push(Build::Layer(dense_spec(g, &c, 6, 2, "tanh", true)));
        let net = NetSpec { input: Shape::Triple(1, 4, 4), builds, skipacc: "add".into(), loopacc: "mean".into(), opt: Some(OptSpec::Sgd(0.05, None)), obj: "mse".into(), clamp: None };
        let s = samples_tok(g, &net, &Sh::Flat(2), 3);
        let v = samples_tok(g, &net, &Sh::Flat(2), 2);
        g.push(format!("net {} learn 3 {} 1 2 {} 5 2 2 0", net.token(), s, v), Tol::Loose, "pool-first/learn-with-validation", true);
        g.push(format!("net {} validate 3 {} {} 1", net.token(), s, hx(0.1)), Tol::Tight, "pool-first/validate-while-training", true);
        g.push(format!("net {} validate 3 {} {} 0", net.token(), s, hx(0.1)), Tol::Tight, "pool-first/validate", true);
        g.push(format!("net {} learn 3 {} 0 2 2 0", net.token(), s), Tol::Loose, "pool-first/learn", true);
    }
    // feedback blocks whose inner layers carry dropout: one block per inner layer kind (dense, convolution,
    // deconvolution), two loops, a dense layer behind it; the block's own flag propagation must set and clear
    // every inner flag
    for kind in 0..3usize {
        let (input, inner, count): (Shape, Vec<InnerSpec>, usize) = match kind {
            0 => {
                let mut d = dense_spec(g, &cfg, 3, 3, "tanh", true);
                if let InnerSpec::Dense { dropout, .. } = &mut d { *dropout = Some(0.5); }
                (Shape::Single(3), vec![d], 3)
            }
            1 => {
                let ks = vec![weights(g, &Shape::Triple(1, 3, 3), 0.4)];
                (Shape::Triple(1, 3, 3), vec![InnerSpec::Conv { filters: 1, act: "tanh".into(), k: (3, 3), s: (1, 1), p: (1, 1), d: (1, 1), dropout: Some(0.5), ks }], 9)
            }
            _ => {
                let ks = vec![weights(g, &Shape::Triple(1, 3, 3), 0.4)];
                (Shape::Triple(1, 3, 3), vec![InnerSpec::Deconv { filters: 1, act: "tanh".into(), k: (3, 3), s: (1, 1), p: (1, 1), dropout: Some(0.5), ks }], 9)
            }
        };
        let c = ArchCfg { dropout: false, ..cfg.clone() };
        let builds = vec![Build::Feedback { inner, loops: 2, inskips: false, outskips: false, acc: "mean".into() },
            Build::Layer(dense_spec(g, &c, count, 2, "tanh", true))];
        let net = NetSpec { input: input.clone(), builds, skipacc: "add".into(), loopacc: "mean".into(), opt: Some(OptSpec::Sgd(0.05, None)), obj: "mse".into(), clamp: None };
        let sh = if kind == 0 { Sh::Flat(2) } else { Sh::Flat(2) };
        let s = samples_tok(g, &net, &sh, 3);
        let v = samples_tok(g, &net, &sh, 2);
        g.push(format!("net {} learn 3 {} 1 2 {} 5 2 2 0", net.token(), s, v), Tol::Loose, &format!("block-kind{}/learn-with-validation", kind), true);
        g.push(format!("net {} learn 3 {} 0 2 2 0", net.token(), s), Tol::Loose, &format!("block-kind{}/learn", kind), true);
        g.push(format!("net {} validate 3 {} {} 1", net.token(), s, hx(0.1)), Tol::Tight, &format!("block-kind{}/validate-while-training", kind), true);
        g.push(format!("net {} validate 3 {} {} 0", net.token(), s, hx(0.1)), Tol::Tight, &format!("block-kind{}/validate", kind), true);
        g.push(format!("net {} learn 3 {} 0 2 0 0", net.token(), s), Tol::Loose, &format!("block-kind{}/learn-zero-epochs", kind), true);
        g.push(format!("net {} learnon 3 {} 1 2 {} 5 2 2 0", net.token(), s, v), Tol::Loose, &format!("block-kind{}/learn-entered-with-flags-on", kind), true);
        g.push(format!("net {} learn 3 {} 1 2 {} 1 2 4 4 {}", net.token(), s, v, q1(&[1.0f32, 2.0, 3.0, 4.0])), Tol::Loose, &format!("block-kind{}/learn-early-stop", kind), true);
    }
    for _ in 0..g.n(40, 800) {
        let (mut net, out) = random_net(g, &cfg);
        net.opt = Some(random_opt(g));
        let n = g.rng().range(1, 4);
        let s = samples_tok(g, &net, &out, n);
        match g.rng().below(3) {
            0 => {
                let train = g.rng().below(3) != 0;
                g.push(format!("net {} validate {} {} {} {}", net.token(), n, s, hx(0.1), train as u8), Tol::Tight, "random/validate", true)
            }
            1 => {
                let v = samples_tok(g, &net, &out, 2);
                if g.rng().below(2) == 0 {
                    let e = g.rng().range(1, 3);
                    g.push(format!("net {} learn {} {} 1 2 {} 5 2 {} 0", net.token(), n, s, v, e), Tol::Loose, "random/learn-with-validation", true)
                } else {
                    // scripted validation losses, often rising: early stopping may fire
                    let len = g.rng().range(3, 7);
                    let script: Vec<f32> = (0..len).map(|i| if g.rng().below(4) == 0 { 1.0 } else { 1.0 + i as f32 }).collect();
                    let thr = g.rng().range(1, 4);
                    g.push(format!("net {} learn {} {} 1 2 {} {} 2 {} {} {}", net.token(), n, s, v, thr, len, script.len(), q1(&script)), Tol::Loose, "random/learn-early-stop", true)
                }
            }
            _ => g.push(format!("net {} learn {} {} 0 2 2 0", net.token(), n, s), Tol::Loose, "random/learn", true),
        }
    }
}

/* ---------------- C04 ---------------- */

pub fn c04(g: &mut Gen) {
    let cfg = ArchCfg { final_dense: Some(3), max_layers: 3, max_dim: 4, ..ArchCfg::small() };
    let opts = [OptSpec::Sgd(0.05, None), OptSpec::Sgdm(0.05, 0.9, 0.0, None), OptSpec::Adam(0.01, 0.9, 0.999, 1e-8, None),
        OptSpec::AdamW(0.01, 0.9, 0.999, 1e-8, 0.01), OptSpec::Rmsprop(0.01, 0.9, 1e-8, None, Some(0.5), true)];
    let mut k = 0;
    for o in opts.iter() {
        for n in [1usize, 2, 5, 7] {
            for b in [1usize, 2, 3, 4, n, n + 3] {
                k += 1;
                if !g.ctx.thorough() && k % 3 != 0 { continue; }
                let mlp = k % 2 == 0;
                let c = if mlp { ArchCfg { conv: false, deconv: false, pool: false, flat_input: Some(true), ..cfg.clone() } } else { cfg.clone() };
                let (mut net, out) = random_net(g, &c);
                net.opt = Some(o.clone());
                net.obj = ["mse", "mae", "bce"][k % 3].to_string();
                if net.obj == "bce" {
                    if let Some(Build::Layer(InnerSpec::Dense { act, .. })) = net.builds.last_mut() { *act = "sigmoid".into(); }
                }
                let e = 1 + k % 3;
                let s = samples_tok(g, &net, &out, n);
                g.push(format!("net {} learn {} {} 0 {} {} 0", net.token(), n, s, b, e), Tol::Loose, &format!("{}/N{}/B{}", o.kind(), n, b), true);
            }
        }
    }
    // large groups (more samples in a group than one parallel evaluation chunk of 64): 65, 70 = one group; 130 / 65 = two
    // full groups; 100 / 70 = a full and a partial one; 200 > N
    for (oi, (n, b)) in [(65usize, 65usize), (70, 70), (130, 65), (100, 70), (90, 200), (129, 128)].iter().enumerate() {
        if !g.ctx.thorough() && oi % 2 == 1 { continue; }
        let c = ArchCfg { conv: false, deconv: false, pool: false, flat_input: Some(true), ..cfg.clone() };
        let builds = vec![Build::Layer(dense_spec(g, &c, 3, 4, "tanh", true)), Build::Layer(dense_spec(g, &c, 4, 2, "linear", oi % 2 == 0))];
        let net = NetSpec { input: Shape::Single(3), builds, skipacc: "add".into(), loopacc: "mean".into(), opt: Some(opts[oi % opts.len()].clone()), obj: "mse".into(), clamp: None };
        let s = samples_tok(g, &net, &Sh::Flat(2), *n);
        g.push(format!("net {} learn {} {} 0 {} 2 0", net.token(), n, s, b), Tol::Loose, &format!("large-groups/N{}/B{}", n, b), true);
    }
    // data of a tiny scale (per-sample gradient components of 1e-8 … 1e-12, subnormal at the extreme): the step is still
    // taken on the SUM of all of them
    for (si, scale) in [1e-4f32, 1e-6, 1e-20, 1e-4, 3e-5].iter().enumerate() {
        let scale = *scale;
        // (initial weights of the data's scale, or zero: the trained weights are then sums of the tiny terms themselves)
        let ws = if si < 3 { scale } else { 0.0 };
        let lin = InnerSpec::Dense { out: 2, act: "linear".into(), bias: true, dropout: None, w: Tensor::double(vec![vec![0.5 * ws, -0.25 * ws, 0.75 * ws], vec![-0.5 * ws, 0.25 * ws, 0.125 * ws]]), b: Some(Tensor::single(vec![0.0, 0.0])) };
        let net = NetSpec { input: Shape::Single(3), builds: vec![Build::Layer(lin)], skipacc: "add".into(), loopacc: "mean".into(), opt: Some(OptSpec::Sgd(0.5, None)), obj: "mse".into(), clamp: None };
        let s: Vec<String> = (0..5).map(|i| format!("{} {}", qt(&Tensor::single(vec![scale * (1.0 + i as f32), -scale * (0.5 + 0.25 * i as f32), scale * 0.75])),
            qt(&Tensor::single(vec![scale * 0.5 * i as f32, -scale])))).collect();
        g.push(format!("net {} learn 5 {} 0 3 2 0", net.token(), s.join(" ")), Tol::Loose, "tiny-scale-data/N5/B3", true);
    }
    // feedback blocks trained for several epochs with optimizers that carry state from step to step
    for (oi, o) in opts.iter().enumerate() {
        for spatial in [false, true] {
            if !g.ctx.thorough() && (oi + spatial as usize) % 2 == 1 { continue; }
            let cb = ArchCfg { wscale: 0.5, acts: vec!["tanh", "sigmoid", "linear"], ..ArchCfg::small() };
            let (mut net, out) = block_net(g, &cb, 2, false, false, "mean", spatial, true, false);
            net.opt = Some(o.clone());
            for (n, b, e) in [(5usize, 2usize, 3usize), (3, 8, 4)] {
                let s = samples_tok(g, &net, &out, n);
                g.push(format!("net {} learn {} {} 0 {} {} 0", net.token(), n, s, b, e), Tol::Loose, &format!("block/{}/N{}/B{}/E{}", o.kind(), n, b, e), true);
            }
        }
    }
    // … and blocks with ONE repetition (the block is its layer sequence: it trains like the plain network)
    for (oi, o) in opts.iter().enumerate() {
        for spatial in [false, true] {
            let cb = ArchCfg { wscale: 0.5, acts: vec!["tanh", "sigmoid", "linear"], ..ArchCfg::small() };
            let (mut net, out) = block_net(g, &cb, 1, false, false, ["mean", "add"][oi % 2], spatial, true, false);
            net.opt = Some(o.clone());
            let s = samples_tok(g, &net, &out, 5);
            g.push(format!("net {} learn 5 {} 0 2 3 0", net.token(), s), Tol::Loose, &format!("one-repetition-block/{}/{}", o.kind(), if spatial { "spatial" } else { "flat" }), true);
        }
    }
    // … and blocks of SEVERAL repetitions whose inner layer carries dropout (dense, convolution, deconvolution): training
    // mode reaches every repetition, so every repetition draws its mask
    for (bi, loops) in [(0usize, 2usize), (1, 3), (2, 2), (0, 3), (1, 2), (2, 3)] {
        let cb = ArchCfg { wscale: 0.5, acts: vec!["tanh", "sigmoid"], dropout: false, ..ArchCfg::small() };
        let (input, inner, count) = match bi {
            0 => { let mut d = dense_spec(g, &cb, 4, 4, "tanh", true); if let InnerSpec::Dense { dropout, .. } = &mut d { *dropout = Some(0.5); } (Shape::Single(4), d, 4) }
            1 => (Shape::Triple(1, 3, 3), InnerSpec::Conv { filters: 1, act: "tanh".into(), k: (3, 3), s: (1, 1), p: (1, 1), d: (1, 1), dropout: Some(0.5), ks: vec![weights(g, &Shape::Triple(1, 3, 3), 0.5)] }, 9),
            _ => (Shape::Triple(1, 3, 3), InnerSpec::Deconv { filters: 1, act: "tanh".into(), k: (3, 3), s: (1, 1), p: (1, 1), dropout: Some(0.5), ks: vec![weights(g, &Shape::Triple(1, 3, 3), 0.5)] }, 9),
        };
        let mut builds = Vec::new();
        if bi == 0 && loops == 3 { builds.push(Build::Layer(dense_spec(g, &cb, 4, 4, "tanh", true))); }
        builds.push(Build::Feedback { inner: vec![inner], loops, inskips: false, outskips: false, acc: "mean".into() });
        builds.push(Build::Layer(dense_spec(g, &cb, count, 2, "linear", true)));
        let net = NetSpec { input, builds, skipacc: "add".into(), loopacc: "mean".into(), opt: Some(opts[(bi + loops) % opts.len()].clone()), obj: "mse".into(), clamp: None };
        let s = samples_tok(g, &net, &Sh::Flat(2), 5);
        g.push(format!("net {} learn 5 {} 0 2 3 0", net.token(), s), Tol::Loose, &format!("block-with-dropout/L{}/{}", loops, ["dense", "conv", "deconv"][bi]), true);
        if loops == 2 {
            let v = samples_tok(g, &net, &Sh::Flat(2), 2);
            g.push(format!("net {} learn 5 {} 1 2 {} 5 2 3 0", net.token(), s, v), Tol::Loose, &format!("block-with-dropout-and-validation/{}", ["dense", "conv", "deconv"][bi]), true);
        }
    }
    // dense blocks of three and four repetitions with biases under plain SGD, mean and additive coupling: after each group's
    // step every copy holds the accumulation of the stepped copies (recomputed from the gradient sums by the oracle)
    for (acc, loops, bias2) in [("mean", 3usize, true), ("mean", 4, false), ("add", 3, true), ("mean", 2, true), ("add", 2, false)] {
        let cb = ArchCfg { wscale: 0.5, acts: vec!["tanh", "linear"], dropout: false, ..ArchCfg::small() };
        let inner = vec![dense_spec(g, &cb, 3, 3, "tanh", true), dense_spec(g, &cb, 3, 3, "linear", bias2)];
        let builds = vec![Build::Feedback { inner, loops, inskips: false, outskips: false, acc: acc.into() }, Build::Layer(dense_spec(g, &cb, 3, 2, "linear", false))];
        let net = NetSpec { input: Shape::Single(3), builds, skipacc: "add".into(), loopacc: "mean".into(), opt: Some(OptSpec::Sgd(0.05, None)), obj: "mse".into(), clamp: None };
        let s = samples_tok(g, &net, &Sh::Flat(2), 5);
        g.push(format!("net {} learn 5 {} 0 2 3 0", net.token(), s), Tol::Loose, &format!("coupled-dense-block/{}/L{}", acc, loops), true);
    }
    // convolutions and deconvolutions with kernels that are wider than high and higher than wide (1x3, 2x3, 3x1, 3x2; several
    // channels and filters) under every optimizer: every scalar of every kernel takes the group's one step
    for (oi, o) in opts.iter().enumerate() {
        for (ki, k) in [(1usize, 3usize), (2, 3), (3, 1), (3, 2)].iter().enumerate() {
            if !g.ctx.thorough() && (oi + ki) % 2 == 1 && ki >= 2 { continue; }
            let cb = ArchCfg { wscale: 0.5, acts: vec!["tanh"], dropout: false, ..ArchCfg::small() };
            let deconv = (oi + ki) % 3 == 2;
            let (first, count) = if deconv {
                (InnerSpec::Deconv { filters: 2, act: "tanh".into(), k: *k, s: (1, 1), p: (0, 0), dropout: None, ks: (0..2).map(|_| weights(g, &Shape::Triple(2, k.0, k.1), 0.4)).collect() }, 2 * (3 + k.0) * (4 + k.1))
            } else {
                (InnerSpec::Conv { filters: 2, act: "tanh".into(), k: *k, s: (1, 1), p: (0, 0), d: (1, 1), dropout: None, ks: (0..2).map(|_| weights(g, &Shape::Triple(2, k.0, k.1), 0.4)).collect() }, 2 * (5 - k.0) * (6 - k.1))
            };
            let builds = vec![Build::Layer(first), Build::Layer(dense_spec(g, &cb, count, 2, "linear", true))];
            let net = NetSpec { input: Shape::Triple(2, 4, 5), builds, skipacc: "add".into(), loopacc: "mean".into(), opt: Some(o.clone()), obj: "mse".into(), clamp: None };
            let s = samples_tok(g, &net, &Sh::Flat(2), 3);
            g.push(format!("net {} learn 3 {} 0 2 2 0", net.token(), s), Tol::Loose, &format!("rectangular-kernels/{}/{}x{}", o.kind(), k.0, k.1), true);
        }
    }
    // every bias on/off pattern of a three-layer MLP (the per-layer bias gradients are summed over the batch
    // layer by layer; a layer without bias sits between layers with one), B = 2 and B > N
    for pat in 0..8u32 {
        for (n, b) in [(5usize, 2usize), (4, 7)] {
            if !g.ctx.thorough() && b == 7 && pat % 2 == 1 { continue; }
            let c = ArchCfg { conv: false, deconv: false, pool: false, flat_input: Some(true), ..cfg.clone() };
            let mut builds = Vec::new();
            let dims = [3usize, 4, 3, 2];
            for li in 0..3 {
                builds.push(Build::Layer(dense_spec(g, &c, dims[li], dims[li + 1], "tanh", pat & (1 << li) != 0)));
            }
            let net = NetSpec { input: Shape::Single(3), builds, skipacc: "add".into(), loopacc: "mean".into(), opt: Some(OptSpec::Sgd(0.05, None)), obj: "mse".into(), clamp: None };
            let s = samples_tok(g, &net, &Sh::Flat(2), n);
            g.push(format!("net {} learn {} {} 0 {} 2 0", net.token(), n, s, b), Tol::Loose, &format!("bias-pattern-{:03b}/N{}/B{}", pat, n, b), true);
        }
    }
    // training twice in a row: the second run continues from the parameters and the optimizer state the first left
    // behind (every stateful optimizer; perceptrons and networks with spatial layers)
    for (oi, o) in opts.iter().enumerate() {
        for (n, b, e) in [(5usize, 2usize, 2usize), (4, 3, 1)] {
            let mlp = (oi + n) % 2 == 0;
            let c = if mlp { ArchCfg { conv: false, deconv: false, pool: false, flat_input: Some(true), ..cfg.clone() } } else { cfg.clone() };
            let (mut net, out) = random_net(g, &c);
            net.opt = Some(o.clone());
            let s = samples_tok(g, &net, &out, n);
            g.push(format!("net {} relearn {} {} 0 {} {} 0", net.token(), n, s, b, e), Tol::Loose, &format!("second-run/{}/N{}/B{}", o.kind(), n, b), true);
        }
    }
    // groups that are fitted exactly (loss exactly 0, gradient sum exactly 0) still get their ONE optimizer step: weight
    // decay, carried momentum and Adam-style state move the weights at a zero gradient
    for o in [OptSpec::Sgd(0.1, Some(0.5)), OptSpec::Sgdm(0.1, 0.9, 0.0, None), OptSpec::Adam(0.05, 0.9, 0.999, 1e-8, None),
              OptSpec::AdamW(0.05, 0.9, 0.999, 1e-8, 0.1), OptSpec::Rmsprop(0.05, 0.9, 1e-8, Some(0.1), Some(0.5), false)] {
        let lin = InnerSpec::Dense { out: 1, act: "linear".into(), bias: true, dropout: None, w: Tensor::double(vec![vec![1.0, 2.0]]), b: Some(Tensor::single(vec![0.5])) };
        let net = NetSpec { input: Shape::Single(2), builds: vec![Build::Layer(lin)], skipacc: "add".into(), loopacc: "mean".into(), opt: Some(o.clone()), obj: "mse".into(), clamp: None };
        // (x, t): the first is fitted exactly by w = [1, 2], b = 0.5
        let fitted = format!("{} {}", qt(&Tensor::single(vec![1.0, 1.0])), qt(&Tensor::single(vec![3.5])));
        let other = format!("{} {}", qt(&Tensor::single(vec![0.5, -1.0])), qt(&Tensor::single(vec![2.0])));
        let third = format!("{} {}", qt(&Tensor::single(vec![2.0, 0.25])), qt(&Tensor::single(vec![-1.0])));
        for (n, b, e, toks) in [(2usize, 1usize, 2usize, vec![&fitted, &other]), (1, 4, 3, vec![&fitted]), (3, 2, 2, vec![&other, &third, &fitted]), (2, 1, 2, vec![&other, &fitted])] {
            let s = toks.iter().map(|t| t.to_string()).collect::<Vec<_>>().join(" ");
            g.push(format!("net {} learn {} {} 0 {} {} 0", net.token(), n, s, b, e), Tol::Loose, &format!("exactly-fitted-group/{}/N{}/B{}", o.kind(), n, b), true);
        }
    }
    // dropout in a dense-only network trained WITH validation data for several epochs: the validation pass in between must
    // not change the mode the next epoch trains in
    for depth in [2usize, 3] {
        let c = ArchCfg { conv: false, deconv: false, pool: false, flat_input: Some(true), dropout: false, ..cfg.clone() };
        let mut builds = Vec::new();
        for li in 0..depth {
            let mut d = dense_spec(g, &c, if li == 0 { 3 } else { 5 }, if li + 1 == depth { 2 } else { 5 }, if li + 1 == depth { "linear" } else { "tanh" }, true);
            if li + 1 < depth { if let InnerSpec::Dense { dropout, .. } = &mut d { *dropout = Some(0.5); } }
            builds.push(Build::Layer(d));
        }
        let net = NetSpec { input: Shape::Single(3), builds, skipacc: "add".into(), loopacc: "mean".into(), opt: Some(OptSpec::Sgd(0.05, None)), obj: "mse".into(), clamp: None };
        let s = samples_tok(g, &net, &Sh::Flat(2), 5);
        let v = samples_tok(g, &net, &Sh::Flat(2), 2);
        g.push(format!("net {} learn 5 {} 1 2 {} 5 2 3 0", net.token(), s, v), Tol::Loose, &format!("dropout-with-validation/depth{}", depth), true);
        g.push(format!("net {} learn 5 {} 0 2 3 0", net.token(), s), Tol::Loose, &format!("dropout-without-validation/depth{}", depth), true);
    }
    // batch size 0 is refused
    let (mut net, out) = random_net(g, &cfg);
    net.opt = Some(OptSpec::Sgd(0.05, None));
    let s = samples_tok(g, &net, &out, 2);
    g.push(format!("net {} learn 2 {} 0 0 1 0", net.token(), s), Tol::Loose, "batch-zero", true);
}

/* ---------------- feedback blocks: C10, C11 ---------------- */

/// a list of block layers whose output shape equals their input shape
fn block_inner(g: &mut Gen, cfg: &ArchCfg, inp: &Sh, with_pool: bool) -> Vec<InnerSpec> {
    let n = g.rng().range(1, 3);
    let mut v = Vec::new();
    match inp {
        Sh::Flat(k) => {
            for _ in 0..n {
                let act = g.rng().pick(&cfg.acts);
                let bias = g.rng().coin();
                v.push(dense_spec(g, cfg, *k, *k, act, bias));
            }
        }
        Sh::Vol(c, _, _) => {
            for i in 0..n {
                let act = g.rng().pick(&cfg.acts);
                let kind = g.rng().below(if with_pool { 4 } else { 3 });
                let mk = |g: &mut Gen, f: usize, k: usize| -> Vec<Tensor> { (0..f).map(|_| weights(g, &Shape::Triple(*c, k, k), cfg.wscale)).collect() };
                let _ = i;
                v.push(match kind {
                    0 => InnerSpec::Conv { filters: *c, act: act.to_string(), k: (3, 3), s: (1, 1), p: (1, 1), d: (1, 1), dropout: None, ks: mk(g, *c, 3) },
                    1 => InnerSpec::Conv { filters: *c, act: act.to_string(), k: (1, 1), s: (1, 1), p: (0, 0), d: (1, 1), dropout: None, ks: mk(g, *c, 1) },
                    2 => InnerSpec::Deconv { filters: *c, act: act.to_string(), k: (3, 3), s: (1, 1), p: (1, 1), dropout: None, ks: mk(g, *c, 3) },
                    _ => InnerSpec::Maxpool { k: (1, 1), s: (1, 1) },
                });
            }
        }
    }
    v
}

fn block_net(g: &mut Gen, cfg: &ArchCfg, loops: usize, inskips: bool, outskips: bool, acc: &str, spatial: bool, dense_after: bool, pool: bool) -> (NetSpec, Sh) {
    let inp = if spatial { Sh::Vol(g.rng().range(1, 2), g.rng().range(2, 4), g.rng().range(2, 4)) } else { Sh::Flat(g.rng().range(1, 4)) };
    let inner = block_inner(g, cfg, &inp, pool);
    let mut builds = vec![Build::Feedback { inner, loops, inskips, outskips, acc: acc.to_string() }];
    let mut out = inp.clone();
    if dense_after {
        let o = g.rng().range(1, 3);
        builds.push(Build::Layer(dense_spec(g, cfg, inp.count(), o, "tanh", true)));
        out = Sh::Flat(o);
    }
    (NetSpec { input: inp.to_shape(), builds, skipacc: "add".into(), loopacc: "mean".into(), opt: None, obj: "mse".into(), clamp: None }, out)
}

pub fn c11(g: &mut Gen) {
    let cfg = ArchCfg { wscale: 0.5, acts: vec!["tanh", "sigmoid", "linear", "relu"], ..ArchCfg::small() };
    // deterministic core: L in 1..4 x 4 flag combinations x 5 accumulations x flat/spatial x dense follows or not
    for loops in 1..=g.n(3, 4) {
        for (i, o) in [(false, false), (true, false), (false, true), (true, true)] {
            for acc in ACCS.iter() {
                for spatial in [false, true] {
                    for dense_after in [false, true] {
                        if !g.ctx.thorough() && (loops + spatial as usize + dense_after as usize + i as usize) % 2 == 1 && *acc != "mean" && *acc != "overwrite" { continue; }
                        let (net, _) = block_net(g, &cfg, loops, i, o, acc, spatial, dense_after, true);
                        let x = input_for(g, &net.input);
                        g.push(format!("net {} predict {}", net.token(), qt(&x)), Tol::Tight,
                            &format!("L{}/in{}out{}/{}/{}", loops, i as u8, o as u8, acc, if spatial { "spatial" } else { "flat" }), true);
                        if loops == 2 && *acc == "add" {
                            g.push(format!("net {} shapes", net.token()), Tol::Exact, "shapes", true);
                        }
                    }
                }
            }
        }
    }
    // blocks whose convolution has stride != dilation (shape-preserving dilated convolutions): the block must be built
    // with the described geometry (stride, padding and dilation each in its own place)
    for (h, w, k, p, d) in [(3usize, 3usize, (3usize, 3usize), (2usize, 2usize), (2usize, 2usize)), (5, 4, (3, 3), (2, 2), (2, 2)),
                            (5, 4, (3, 1), (2, 0), (2, 1)), (4, 6, (1, 3), (0, 3), (1, 3))] {
        for (loops, i, o, acc) in [(2usize, false, false, "add"), (3, true, true, "add"), (2, true, false, "mean")] {
            let c = InnerSpec::Conv { filters: 1, act: "tanh".into(), k, s: (1, 1), p, d, dropout: None, ks: vec![weights(g, &Shape::Triple(1, k.0, k.1), 0.5)] };
            let net = NetSpec { input: Shape::Triple(1, h, w), builds: vec![Build::Feedback { inner: vec![c], loops, inskips: i, outskips: o, acc: acc.into() }],
                skipacc: "add".into(), loopacc: "mean".into(), opt: None, obj: "mse".into(), clamp: None };
            let x = input_for(g, &net.input);
            g.push(format!("net {} predict {}", net.token(), qt(&x)), Tol::Tight, &format!("dilated-block/{}x{}/L{}", h, w, loops), true);
        }
    }
    // … and shape-preserving blocks with rectangular kernels and per-axis paddings (kernel, stride and padding each in
    // its own place, per axis), for convolution and deconvolution
    for (h, w, k, p) in [(4usize, 5usize, (3usize, 5usize), (1usize, 2usize)), (5, 3, (5, 1), (2, 0)), (3, 6, (1, 3), (0, 1))] {
        for (loops, i, o, acc) in [(2usize, true, false, "add"), (3, false, true, "mean")] {
            let c = InnerSpec::Conv { filters: 1, act: "tanh".into(), k, s: (1, 1), p, d: (1, 1), dropout: None, ks: vec![weights(g, &Shape::Triple(1, k.0, k.1), 0.4)] };
            let dc = InnerSpec::Deconv { filters: 1, act: "tanh".into(), k, s: (1, 1), p, dropout: None, ks: vec![weights(g, &Shape::Triple(1, k.0, k.1), 0.4)] };
            for inner in [c, dc] {
                let net = NetSpec { input: Shape::Triple(1, h, w), builds: vec![Build::Feedback { inner: vec![inner], loops, inskips: i, outskips: o, acc: acc.into() }],
                    skipacc: "add".into(), loopacc: "mean".into(), opt: None, obj: "mse".into(), clamp: None };
                let x = input_for(g, &net.input);
                g.push(format!("net {} predict {}", net.token(), qt(&x)), Tol::Tight, &format!("rectangular-block/{}x{}/L{}", h, w, loops), true);
            }
        }
    }
    // maps of a single value (C x 1 x 1, also one channel) through a spatial block, alone and with a dense layer behind it
    // (flattened like any other map)
    for c in [1usize, 2, 3] {
        for (loops, i, o, acc) in [(1usize, false, false, "add"), (2, false, true, "mean"), (3, true, true, "add"), (2, true, false, "mul")] {
            for dense_after in [true, false] {
                for kind in 0..2 {
                    let inner = if kind == 0 { InnerSpec::Conv { filters: c, act: "tanh".into(), k: (1, 1), s: (1, 1), p: (0, 0), d: (1, 1), dropout: None, ks: (0..c).map(|_| weights(g, &Shape::Triple(c, 1, 1), 0.6)).collect() } }
                        else { InnerSpec::Deconv { filters: c, act: "tanh".into(), k: (3, 3), s: (1, 1), p: (1, 1), dropout: None, ks: (0..c).map(|_| weights(g, &Shape::Triple(c, 3, 3), 0.6)).collect() } };
                    let mut builds = vec![Build::Feedback { inner: vec![inner], loops, inskips: i, outskips: o, acc: acc.into() }];
                    if dense_after { builds.push(Build::Layer(dense_spec(g, &cfg, c, 2, "linear", true))); }
                    let net = NetSpec { input: Shape::Triple(c, 1, 1), builds, skipacc: "add".into(), loopacc: "mean".into(), opt: None, obj: "mse".into(), clamp: None };
                    let x = input_for(g, &net.input);
                    g.push(format!("net {} predict {}", net.token(), qt(&x)), Tol::Tight, &format!("single-value-maps/c{}/L{}/{}", c, loops, if dense_after { "dense-follows" } else { "alone" }), true);
                    if loops == 2 && kind == 0 { g.push(format!("net {} shapes", net.token()), Tol::Exact, "single-value-maps/shapes", true); }
                }
            }
        }
    }
    // every activation function inside a block of several repetitions (each repetition applies the SAME function: leaky
    // ReLU with its slope on negative pre-activations, soft-max, …), flat and spatial
    for act in ["leaky", "relu", "sigmoid", "tanh", "linear", "softmax"] {
        for loops in [2usize, 3] {
            let w = Tensor::double(vec![vec![-0.7, 0.2, 0.1], vec![0.3, -0.9, 0.2], vec![0.1, 0.4, -0.8]]);
            let flat = InnerSpec::Dense { out: 3, act: act.into(), bias: true, dropout: None, w, b: Some(Tensor::single(vec![-0.2, 0.1, -0.3])) };
            let netf = NetSpec { input: Shape::Single(3), builds: vec![Build::Feedback { inner: vec![flat], loops, inskips: false, outskips: loops == 3, acc: "add".into() }],
                skipacc: "add".into(), loopacc: "mean".into(), opt: None, obj: "mse".into(), clamp: None };
            g.push(format!("net {} predict {}", netf.token(), qt(&Tensor::single(vec![1.5, 2.0, 0.5]))), Tol::Tight, &format!("every-activation/flat/{}/L{}", act, loops), true);
            g.push(format!("net {} predict {}", netf.token(), qt(&Tensor::single(vec![-1.5, -2.0, -0.5]))), Tol::Tight, &format!("every-activation/flat/{}/L{}", act, loops), true);
            if act != "softmax" {
                let k = Tensor::triple(vec![vec![vec![0.0, -0.3, 0.0], vec![0.2, -0.9, 0.1], vec![0.0, 0.4, 0.0]]]);
                let c = InnerSpec::Conv { filters: 1, act: act.into(), k: (3, 3), s: (1, 1), p: (1, 1), d: (1, 1), dropout: None, ks: vec![k] };
                let nets = NetSpec { input: Shape::Triple(1, 2, 3), builds: vec![Build::Feedback { inner: vec![c], loops, inskips: loops == 3, outskips: false, acc: "mean".into() }],
                    skipacc: "add".into(), loopacc: "mean".into(), opt: None, obj: "mse".into(), clamp: None };
                g.push(format!("net {} predict {}", nets.token(), qt(&Tensor::triple(vec![vec![vec![1.0, 2.0, 0.5], vec![1.5, 0.25, 3.0]]]))), Tol::Tight, &format!("every-activation/spatial/{}/L{}", act, loops), true);
            }
        }
    }
    // "with shared weights" also after training: dense, convolution and deconvolution blocks are trained for a few steps
    // (the repetitions must still be one layer sequence applied L times)
    {
        let opts = [OptSpec::Sgd(0.05, None), OptSpec::Adam(0.01, 0.9, 0.999, 1e-8, None)];
        let mut kk = 0;
        for loops in [2usize, 3] {
            for spatial in [false, true] {
                for (i, o) in [(false, false), (true, true)] {
                    kk += 1;
                    let (mut net, out) = block_net(g, &cfg, loops, i, o, "add", spatial, true, false);
                    net.opt = Some(opts[kk % 2].clone());
                    let s = samples_tok(g, &net, &out, 3);
                    g.push(format!("net {} learn 3 {} 0 2 2 0", net.token(), s), Tol::Loose, &format!("trained-block/L{}/{}", loops, if spatial { "spatial" } else { "flat" }), true);
                }
            }
            let dc = InnerSpec::Deconv { filters: 1, act: "tanh".into(), k: (3, 3), s: (1, 1), p: (1, 1), dropout: None, ks: vec![weights(g, &Shape::Triple(1, 3, 3), 0.4)] };
            let mut net = NetSpec { input: Shape::Triple(1, 4, 4), builds: vec![Build::Feedback { inner: vec![dc], loops, inskips: false, outskips: false, acc: "mean".into() },
                Build::Layer(dense_spec(g, &cfg, 16, 2, "tanh", true))], skipacc: "add".into(), loopacc: "mean".into(), opt: None, obj: "mse".into(), clamp: None };
            net.opt = Some(opts[loops % 2].clone());
            let s = samples_tok(g, &net, &Sh::Flat(2), 4);
            g.push(format!("net {} learn 4 {} 0 2 2 0", net.token(), s), Tol::Loose, &format!("trained-block/deconv/L{}", loops), true);
        }
    }
    // … a block whose convolution carries dropout, trained: afterwards the block is again the plain repeated application
    // (every inner flag cleared)
    for loops in [2usize, 3] {
        let c = InnerSpec::Conv { filters: 1, act: "tanh".into(), k: (3, 3), s: (1, 1), p: (1, 1), d: (1, 1), dropout: Some(0.5), ks: vec![weights(g, &Shape::Triple(1, 3, 3), 0.4)] };
        let mut net = NetSpec { input: Shape::Triple(1, 4, 4), builds: vec![Build::Feedback { inner: vec![c], loops, inskips: false, outskips: false, acc: "add".into() },
            Build::Layer(dense_spec(g, &cfg, 16, 2, "tanh", true))], skipacc: "add".into(), loopacc: "mean".into(), opt: None, obj: "mse".into(), clamp: None };
        net.opt = Some(OptSpec::Sgd(0.05, None));
        let s = samples_tok(g, &net, &Sh::Flat(2), 3);
        g.push(format!("net {} learn 3 {} 0 2 2 0", net.token(), s), Tol::Loose, &format!("trained-block/conv-with-dropout/L{}", loops), true);
    }
    // a stand-alone validate on a network whose BLOCK carries dropout (dense, convolution, deconvolution inside): afterwards
    // the block is still the plain repeated application (checked by the predict-after-validate oracle and the flags reported)
    for (bi, loops, i, o) in [(0usize, 3usize, true, true), (0, 2, false, false), (1, 2, false, true), (2, 2, true, false)] {
        let cb = ArchCfg { wscale: 0.5, acts: vec!["tanh"], dropout: false, ..ArchCfg::small() };
        let (input, inner, count) = match bi {
            0 => { let mut d1 = dense_spec(g, &cb, 4, 4, "tanh", true); let mut d2 = dense_spec(g, &cb, 4, 4, "tanh", false);
                   if let InnerSpec::Dense { dropout, .. } = &mut d1 { *dropout = Some(0.5); } if let InnerSpec::Dense { dropout, .. } = &mut d2 { *dropout = Some(0.5); }
                   (Shape::Single(4), vec![d1, d2], 4) }
            1 => (Shape::Triple(1, 3, 3), vec![InnerSpec::Conv { filters: 1, act: "tanh".into(), k: (3, 3), s: (1, 1), p: (1, 1), d: (1, 1), dropout: Some(0.5), ks: vec![weights(g, &Shape::Triple(1, 3, 3), 0.5)] }], 9),
            _ => (Shape::Triple(1, 3, 3), vec![InnerSpec::Deconv { filters: 1, act: "tanh".into(), k: (3, 3), s: (1, 1), p: (1, 1), dropout: Some(0.5), ks: vec![weights(g, &Shape::Triple(1, 3, 3), 0.5)] }], 9),
        };
        let builds = vec![Build::Feedback { inner, loops, inskips: i, outskips: o && bi == 0, acc: "add".into() }, Build::Layer(dense_spec(g, &cb, count, 2, "linear", true))];
        let net = NetSpec { input, builds, skipacc: "add".into(), loopacc: "mean".into(), opt: None, obj: "mse".into(), clamp: None };
        let s = samples_tok(g, &net, &Sh::Flat(2), 3);
        g.push(format!("net {} validate 3 {} {} 0", net.token(), s, hx(0.1)), Tol::Tight, &format!("validate-then-predict/block-dropout{}", bi), true);
    }
    // a block with dropout after a training run that STOPPED EARLY (and one that ran to the end): it is the plain repeated
    // application again
    early_stopped_dropout_learn(g, "after-learn");
    // exact arithmetic: a linear layer that multiplies by a power of two, inputs that are small integers times one power of
    // two (ordinary, deep in the subnormal range, just above it): every sum is exact, a mean is ONE correctly rounded
    // division — compared bit for bit (mean of three is not a power-of-two division; mean(u, u) = u for the smallest u)
    for (si, scale) in [1.0f32, f32::from_bits(1), 2.0f32.powi(-140), 2.0f32.powi(-126)].iter().enumerate() {
        for acc in ["mean", "add", "sub"] {
            for (loops, i, o) in [(2usize, true, false), (3, false, true), (3, true, true), (2, false, true), (4, false, true)] {
                if !g.ctx.thorough() && acc != "mean" && (loops + si) % 2 == 1 { continue; }
                for (ki, kv) in [1.0f32, 2.0, 0.5].iter().enumerate() {
                    if ki > 0 && (si + loops) % 2 == 1 { continue; }
                    let spatial = InnerSpec::Conv { filters: 1, act: "linear".into(), k: (1, 1), s: (1, 1), p: (0, 0), d: (1, 1), dropout: None, ks: vec![Tensor::triple(vec![vec![vec![*kv]]])] };
                    let xs: Vec<f32> = [8.0f32, 2.0, 4.0, 1.0, 3.0, 6.0].iter().map(|v| v * scale).collect();
                    let net = NetSpec { input: Shape::Triple(1, 2, 3), builds: vec![Build::Feedback { inner: vec![spatial], loops, inskips: i, outskips: o, acc: acc.into() }],
                        skipacc: "add".into(), loopacc: "mean".into(), opt: None, obj: "mse".into(), clamp: None };
                    let xt = Tensor::triple(vec![vec![xs[..3].to_vec(), xs[3..].to_vec()]]);
                    g.push(format!("net {} predict {}", net.token(), qt(&xt)), Tol::Exact, &format!("exact-grid/spatial/{}/L{}", acc, loops), true);
                    let flat = InnerSpec::Dense { out: 3, act: "linear".into(), bias: false, dropout: None,
                        w: Tensor::double((0..3).map(|r| (0..3).map(|c| if r == c { *kv } else { 0.0 }).collect()).collect()), b: None };
                    let netf = NetSpec { input: Shape::Single(3), builds: vec![Build::Feedback { inner: vec![flat], loops, inskips: i, outskips: o, acc: acc.into() }],
                        skipacc: "add".into(), loopacc: "mean".into(), opt: None, obj: "mse".into(), clamp: None };
                    g.push(format!("net {} predict {}", netf.token(), qt(&Tensor::single(xs[..3].to_vec()))), Tol::Exact, &format!("exact-grid/flat/{}/L{}", acc, loops), true);
                }
            }
        }
    }
    // a block input that is zero in every element / all ones (bias-free linear layer: every repetition outputs the neutral
    // element too): the combination is still the stated one
    for acc in ACCS.iter() {
        for (i, o) in [(true, false), (false, true), (true, true)] {
            let flat = InnerSpec::Dense { out: 2, act: "linear".into(), bias: false, dropout: None, w: Tensor::double(vec![vec![0.0, 1.0], vec![1.0, 0.0]]), b: None };
            let netf = NetSpec { input: Shape::Single(2), builds: vec![Build::Feedback { inner: vec![flat], loops: 3, inskips: i, outskips: o, acc: acc.to_string() }],
                skipacc: "add".into(), loopacc: "mean".into(), opt: None, obj: "mse".into(), clamp: None };
            for x in [vec![0.0f32, 0.0], vec![1.0, 1.0], vec![0.0, 2.0]] {
                g.push(format!("net {} predict {}", netf.token(), qt(&Tensor::single(x))), Tol::Tight, &format!("special-input-values/{}/in{}out{}", acc, i as u8, o as u8), true);
            }
        }
    }
    // several hundred repetitions (more than a byte counts): the combination over all of them is still the stated one —
    // the mean divides by the number of repetitions, whatever it is
    for loops in [255usize, 256, 257, 300] {
        if !g.ctx.thorough() && loops == 300 { continue; }
        for (acc, i, o) in [("mean", false, true), ("mean", true, true), ("add", false, true)] {
            let flat = InnerSpec::Dense { out: 2, act: "linear".into(), bias: false, dropout: None, w: Tensor::double(vec![vec![0.0, 1.0], vec![-1.0, 0.0]]), b: None };
            let netf = NetSpec { input: Shape::Single(2), builds: vec![Build::Feedback { inner: vec![flat], loops, inskips: i, outskips: o, acc: acc.into() }],
                skipacc: "add".into(), loopacc: "mean".into(), opt: None, obj: "mse".into(), clamp: None };
            g.push(format!("net {} predict {}", netf.token(), qt(&Tensor::single(vec![0.75, -0.5]))), Tol::Tight, &format!("many-loops/{}/L{}", acc, loops), true);
        }
    }
    // tiny activations (all within 1e-5 of each other and of zero, and still different values) and a block close to a fixed
    // point, under every accumulation incl. overwrite: repetitions that are nearly equal are not interchangeable
    for acc in ACCS.iter() {
        for (loops, i, o) in [(2usize, true, false), (3, false, true), (3, true, true), (2, false, true)] {
            // (a scaled permutation: every output is ONE product, nothing is summed inside a repetition)
            let w = Tensor::double(vec![vec![0.0, -0.5, 0.0], vec![0.0, 0.0, 2.0], vec![0.25, 0.0, 0.0]]);
            let flat = InnerSpec::Dense { out: 3, act: "linear".into(), bias: false, dropout: None, w, b: None };
            let netf = NetSpec { input: Shape::Single(3), builds: vec![Build::Feedback { inner: vec![flat], loops, inskips: i, outskips: o, acc: acc.to_string() }],
                skipacc: "add".into(), loopacc: "mean".into(), opt: None, obj: "mse".into(), clamp: None };
            for x in [vec![2e-6f32, -1e-6, 3e-6], vec![1e-9, 2e-9, -1e-9], vec![0.5, -0.25, 0.125]] {
                g.push(format!("net {} predict {}", netf.token(), qt(&Tensor::single(x))), if *acc == "overwrite" { Tol::Exact } else { Tol::Tight },
                    &format!("tiny-activations/{}/in{}out{}", acc, i as u8, o as u8), true);
            }
            // nearly the identity: successive repetitions differ by a few 1e-7 relative
            let near = Tensor::double(vec![vec![1.0, 1e-6, 0.0], vec![0.0, 1.0, -1e-6], vec![2e-6, 0.0, 1.0]]);
            let nf = InnerSpec::Dense { out: 3, act: "linear".into(), bias: false, dropout: None, w: near, b: None };
            let netn = NetSpec { input: Shape::Single(3), builds: vec![Build::Feedback { inner: vec![nf], loops, inskips: i, outskips: o, acc: acc.to_string() }],
                skipacc: "add".into(), loopacc: "mean".into(), opt: None, obj: "mse".into(), clamp: None };
            g.push(format!("net {} predict {}", netn.token(), qt(&Tensor::single(vec![0.75, -0.5, 0.25]))),
                // (bit for bit where nothing is summed across repetitions: overwrite selects; every row has two non-zero terms)
                if *acc == "overwrite" { Tol::Exact } else { Tol::Tight }, &format!("near-fixed-point/{}/in{}out{}", acc, i as u8, o as u8), true);
        }
    }
    // multiplicative accumulation at the edge of the number range: a repetition that overflows to infinity times a
    // zero of the block input is NaN, not zero (element-wise IEEE arithmetic in the accumulation, also at rank 3)
    {
        let k = Tensor::triple(vec![vec![vec![0.0, 0.0, 0.0], vec![4.0, 1.0, 4.0], vec![0.0, 0.0, 0.0]]]);
        let c = InnerSpec::Conv { filters: 1, act: "linear".into(), k: (3, 3), s: (1, 1), p: (1, 1), d: (1, 1), dropout: None, ks: vec![k] };
        for (acc, x) in [("mul", vec![0.0f32, 2.0f32.powi(126), 1.0]), ("mul", vec![0.0, 3.0, 1.0]), ("mul", vec![-0.0, -2.0f32.powi(126), 1.0]), ("add", vec![0.0, 2.0f32.powi(126), 1.0])] {
            let net = NetSpec { input: Shape::Triple(1, 1, 3), builds: vec![Build::Feedback { inner: vec![c.clone()], loops: 2, inskips: true, outskips: false, acc: acc.into() }],
                skipacc: "add".into(), loopacc: "mean".into(), opt: None, obj: "mse".into(), clamp: None };
            let xt = Tensor::triple(vec![vec![x]]);
            g.push(format!("net {} predict {}", net.token(), qt(&xt)), Tol::Tight, "overflowing-multiply", true);
        }
    }
    // a block whose output shape differs from its input shape is refused; zero loops are refused
    let bad = NetSpec { input: Shape::Single(3), builds: vec![Build::Feedback { inner: vec![dense_spec(g, &cfg, 3, 2, "tanh", true)], loops: 2, inskips: false, outskips: false, acc: "add".into() }],
        skipacc: "add".into(), loopacc: "mean".into(), opt: None, obj: "mse".into(), clamp: None };
    g.push(format!("net {} shapes", bad.token()), Tol::Exact, "refused/shape", true);
    let bad = NetSpec { input: Shape::Single(3), builds: vec![Build::Feedback { inner: vec![dense_spec(g, &cfg, 3, 3, "tanh", true)], loops: 0, inskips: false, outskips: false, acc: "add".into() }],
        skipacc: "add".into(), loopacc: "mean".into(), opt: None, obj: "mse".into(), clamp: None };
    g.push(format!("net {} shapes", bad.token()), Tol::Exact, "refused/zero-loops", true);
}

pub fn c10(g: &mut Gen) {
    let cfg = ArchCfg { wscale: 0.5, acts: vec!["tanh", "sigmoid", "linear"], ..ArchCfg::small() };
    let opts = [OptSpec::Sgd(0.05, None), OptSpec::Sgdm(0.05, 0.9, 0.0, None), OptSpec::Adam(0.01, 0.9, 0.999, 1e-8, None),
        OptSpec::AdamW(0.01, 0.9, 0.999, 1e-8, 0.01), OptSpec::Rmsprop(0.01, 0.9, 1e-8, None, None, false)];
    let mut k = 0;
    for loops in 1..=g.n(3, 4) {
        for acc in ["add", "sub", "mul", "mean"] {
            for spatial in [false, true] {
                for o in opts.iter() {
                    k += 1;
                    if !g.ctx.thorough() && k % 3 != 0 { continue; }
                    let (mut net, out) = block_net(g, &cfg, loops, k % 2 == 0, k % 4 < 2, acc, spatial, true, false);
                    net.opt = Some(o.clone());
                    g.push(format!("net {} shapes", net.token()), Tol::Exact, &format!("parameters/L{}", loops), true);
                    let n = 1 + k % 3;
                    let s = samples_tok(g, &net, &out, n);
                    g.push(format!("net {} learn {} {} 0 {} {} 0", net.token(), n, s, 1 + k % 2, 1 + k % 3), Tol::Loose,
                        &format!("learn/L{}/{}/{}/{}", loops, acc, if spatial { "spatial" } else { "flat" }, o.kind()), true);
                }
            }
        }
    }
    // heterogeneous blocks (layers with different parameter counts) whose length and loop count share a factor:
    // the reported parameter count must still count exactly one repetition
    for loops in [1usize, 2, 3, 4] {
        let d1 = dense_spec(g, &cfg, 3, 5, "tanh", true);
        let d2 = dense_spec(g, &cfg, 5, 3, "tanh", false);
        let net = NetSpec { input: Shape::Single(3), builds: vec![Build::Feedback { inner: vec![d1, d2], loops, inskips: false, outskips: false, acc: "mean".into() },
            Build::Layer(dense_spec(g, &cfg, 3, 2, "tanh", true))], skipacc: "add".into(), loopacc: "mean".into(), opt: None, obj: "mse".into(), clamp: None };
        g.push(format!("net {} shapes", net.token()), Tol::Exact, &format!("parameters/heterogeneous/L{}", loops), true);
        // … and such width-changing dense layers WITH biases stay tied when trained (a bias has as many entries as the layer
        // has outputs, whatever its number of inputs)
        if loops >= 2 {
            for (oi, acc) in ["mean", "add", "mul"].iter().enumerate() {
                let h1 = dense_spec(g, &cfg, 3, 5, "tanh", true);
                let h2 = dense_spec(g, &cfg, 5, 3, "tanh", oi != 1);
                let mut neth = NetSpec { input: Shape::Single(3), builds: vec![Build::Feedback { inner: vec![h1, h2], loops, inskips: false, outskips: false, acc: acc.to_string() },
                    Build::Layer(dense_spec(g, &cfg, 3, 2, "tanh", true))], skipacc: "add".into(), loopacc: "mean".into(), opt: None, obj: "mse".into(), clamp: None };
                neth.opt = Some(opts[(loops + oi) % opts.len()].clone());
                let sh = samples_tok(g, &neth, &Sh::Flat(2), 3);
                g.push(format!("net {} learn 3 {} 0 2 2 0", neth.token(), sh), Tol::Loose, &format!("learn/heterogeneous-with-bias/{}/L{}", acc, loops), true);
            }
        }
        let e1 = dense_spec(g, &cfg, 4, 7, "tanh", true);
        let e2 = dense_spec(g, &cfg, 7, 2, "tanh", true);
        let e3 = dense_spec(g, &cfg, 2, 4, "tanh", false);
        let net3 = NetSpec { input: Shape::Single(4), builds: vec![Build::Feedback { inner: vec![e1, e2, e3], loops, inskips: false, outskips: false, acc: "add".into() }],
            skipacc: "add".into(), loopacc: "mean".into(), opt: None, obj: "mse".into(), clamp: None };
        g.push(format!("net {} shapes", net3.token()), Tol::Exact, &format!("parameters/heterogeneous3/L{}", loops), true);
        let c1 = InnerSpec::Conv { filters: 2, act: "tanh".into(), k: (3, 3), s: (1, 1), p: (1, 1), d: (1, 1), dropout: None, ks: (0..2).map(|_| weights(g, &Shape::Triple(1, 3, 3), 0.4)).collect() };
        let c2 = InnerSpec::Conv { filters: 1, act: "tanh".into(), k: (1, 1), s: (1, 1), p: (0, 0), d: (1, 1), dropout: None, ks: vec![weights(g, &Shape::Triple(2, 1, 1), 0.4)] };
        let netc = NetSpec { input: Shape::Triple(1, 4, 4), builds: vec![Build::Feedback { inner: vec![c1, c2], loops, inskips: false, outskips: false, acc: "mean".into() }],
            skipacc: "add".into(), loopacc: "mean".into(), opt: None, obj: "mse".into(), clamp: None };
        g.push(format!("net {} shapes", netc.token()), Tol::Exact, &format!("parameters/heterogeneous-conv/L{}", loops), true);
        // … and such widening-then-narrowing blocks (more filters than channels read, and the reverse) stay tied
        // when trained: convolution 1→3→1 and deconvolution 1→2→1, every filter of every copy
        if loops >= 2 {
            let w1 = InnerSpec::Conv { filters: 3, act: "tanh".into(), k: (3, 3), s: (1, 1), p: (1, 1), d: (1, 1), dropout: None, ks: (0..3).map(|_| weights(g, &Shape::Triple(1, 3, 3), 0.4)).collect() };
            let w2 = InnerSpec::Conv { filters: 1, act: "tanh".into(), k: (1, 1), s: (1, 1), p: (0, 0), d: (1, 1), dropout: None, ks: vec![weights(g, &Shape::Triple(3, 1, 1), 0.4)] };
            let mut netw = NetSpec { input: Shape::Triple(1, 4, 4), builds: vec![Build::Feedback { inner: vec![w1, w2], loops, inskips: false, outskips: false, acc: ["mean", "add"][loops % 2].into() },
                Build::Layer(dense_spec(g, &cfg, 16, 2, "tanh", true))], skipacc: "add".into(), loopacc: "mean".into(), opt: None, obj: "mse".into(), clamp: None };
            netw.opt = Some(opts[loops % opts.len()].clone());
            let sw = samples_tok(g, &netw, &Sh::Flat(2), 2);
            g.push(format!("net {} learn 2 {} 0 1 2 0", netw.token(), sw), Tol::Loose, &format!("learn/widening-conv/L{}", loops), true);
            let v1 = InnerSpec::Deconv { filters: 2, act: "tanh".into(), k: (1, 1), s: (1, 1), p: (0, 0), dropout: None, ks: (0..2).map(|_| weights(g, &Shape::Triple(1, 1, 1), 0.6)).collect() };
            let v2 = InnerSpec::Deconv { filters: 1, act: "sigmoid".into(), k: (3, 3), s: (1, 1), p: (1, 1), dropout: None, ks: vec![weights(g, &Shape::Triple(2, 3, 3), 0.4)] };
            let mut netv = NetSpec { input: Shape::Triple(1, 3, 4), builds: vec![Build::Feedback { inner: vec![v1, v2], loops, inskips: false, outskips: false, acc: ["add", "mean"][loops % 2].into() }],
                skipacc: "add".into(), loopacc: "mean".into(), opt: None, obj: "mse".into(), clamp: None };
            netv.opt = Some(opts[(loops + 2) % opts.len()].clone());
            g.push(format!("net {} shapes", netw.token()), Tol::Exact, &format!("parameters/widening-conv/L{}", loops), true);
            g.push(format!("net {} shapes", netv.token()), Tol::Exact, &format!("parameters/widening-deconv/L{}", loops), true);
            // … a convolution that widens to f maps and a deconvolution that narrows back to one (filters != channels read)
            for f in [2usize, 3] {
                let m1 = InnerSpec::Conv { filters: f, act: "tanh".into(), k: (3, 3), s: (1, 1), p: (1, 1), d: (1, 1), dropout: None, ks: (0..f).map(|_| weights(g, &Shape::Triple(1, 3, 3), 0.4)).collect() };
                let m2 = InnerSpec::Deconv { filters: 1, act: "tanh".into(), k: (3, 3), s: (1, 1), p: (1, 1), dropout: None, ks: vec![weights(g, &Shape::Triple(f, 3, 3), 0.4)] };
                let mut netm = NetSpec { input: Shape::Triple(1, 4, 4), builds: vec![Build::Feedback { inner: vec![m1, m2], loops, inskips: false, outskips: false, acc: "mean".into() },
                    Build::Layer(dense_spec(g, &cfg, 16, 2, "tanh", true))], skipacc: "add".into(), loopacc: "mean".into(), opt: None, obj: "mse".into(), clamp: None };
                g.push(format!("net {} shapes", netm.token()), Tol::Exact, &format!("parameters/conv-then-deconv/f{}/L{}", f, loops), true);
                netm.opt = Some(opts[(loops + f) % opts.len()].clone());
                let sm = samples_tok(g, &netm, &Sh::Flat(2), 2);
                g.push(format!("net {} learn 2 {} 0 2 2 0", netm.token(), sm), Tol::Loose, &format!("learn/conv-then-deconv/f{}/L{}", f, loops), true);
            }
            let sv = samples_tok(g, &netv, &Sh::Vol(1, 3, 4), 2);
            g.push(format!("net {} learn 2 {} 0 2 2 0", netv.token(), sv), Tol::Loose, &format!("learn/widening-deconv/L{}", loops), true);
        }
    }
    // many repetitions (loop counts that are not powers of two: 5 … 12, 17, 24) and parameter counts of every residue:
    // the reported count is still that of ONE repetition, exactly
    for loops in [5usize, 6, 7, 9, 10, 11, 12, 17, 24] {
        for (a, b, bias) in [(3usize, 5usize, true), (2, 2, false), (1, 1, true), (4, 3, true), (7, 1, false)] {
            if !g.ctx.thorough() && (loops + a) % 2 == 0 && loops > 7 { continue; }
            let d1 = dense_spec(g, &cfg, a, b, "tanh", bias);
            let d2 = dense_spec(g, &cfg, b, a, "tanh", !bias);
            let net = NetSpec { input: Shape::Single(a), builds: vec![Build::Feedback { inner: vec![d1, d2], loops, inskips: false, outskips: false, acc: "mean".into() }],
                skipacc: "add".into(), loopacc: "mean".into(), opt: None, obj: "mse".into(), clamp: None };
            g.push(format!("net {} shapes", net.token()), Tol::Exact, &format!("parameters/many-loops/L{}", loops), true);
            let d = dense_spec(g, &cfg, a, a, "tanh", bias);
            let net1 = NetSpec { input: Shape::Single(a), builds: vec![Build::Feedback { inner: vec![d], loops, inskips: false, outskips: false, acc: "add".into() }],
                skipacc: "add".into(), loopacc: "mean".into(), opt: None, obj: "mse".into(), clamp: None };
            g.push(format!("net {} shapes", net1.token()), Tol::Exact, &format!("parameters/many-loops-single/L{}", loops), true);
        }
    }
    // rectangular kernels (height != width, also with several channels and filters) inside and outside a block: the count
    // is filters x channels x height x width
    for (k, p) in [((3usize, 1usize), (1usize, 0usize)), ((1, 3), (0, 1)), ((5, 3), (2, 1)), ((1, 5), (0, 2))] {
        for loops in [1usize, 2, 3] {
            let c1 = InnerSpec::Conv { filters: 2, act: "tanh".into(), k, s: (1, 1), p, d: (1, 1), dropout: None, ks: (0..2).map(|_| weights(g, &Shape::Triple(1, k.0, k.1), 0.4)).collect() };
            let c2 = InnerSpec::Conv { filters: 1, act: "tanh".into(), k: (k.1, k.0), s: (1, 1), p: (p.1, p.0), d: (1, 1), dropout: None, ks: vec![weights(g, &Shape::Triple(2, k.1, k.0), 0.4)] };
            let netc = NetSpec { input: Shape::Triple(1, 5, 6), builds: vec![Build::Feedback { inner: vec![c1.clone(), c2], loops, inskips: false, outskips: false, acc: "mean".into() }],
                skipacc: "add".into(), loopacc: "mean".into(), opt: None, obj: "mse".into(), clamp: None };
            g.push(format!("net {} shapes", netc.token()), Tol::Exact, &format!("parameters/rectangular-kernels/L{}", loops), true);
            let dc1 = InnerSpec::Deconv { filters: 1, act: "tanh".into(), k, s: (1, 1), p, dropout: None, ks: vec![weights(g, &Shape::Triple(1, k.0, k.1), 0.4)] };
            let netd = NetSpec { input: Shape::Triple(1, 5, 6), builds: vec![Build::Feedback { inner: vec![dc1], loops, inskips: false, outskips: false, acc: "add".into() }],
                skipacc: "add".into(), loopacc: "mean".into(), opt: None, obj: "mse".into(), clamp: None };
            g.push(format!("net {} shapes", netd.token()), Tol::Exact, &format!("parameters/rectangular-kernels-deconv/L{}", loops), true);
            if loops == 1 {
                let plain = NetSpec { input: Shape::Triple(1, 5, 6), builds: vec![Build::Layer(c1)], skipacc: "add".into(), loopacc: "mean".into(), opt: None, obj: "mse".into(), clamp: None };
                g.push(format!("net {} shapes", plain.token()), Tol::Exact, "parameters/rectangular-kernels-plain", true);
            }
        }
    }
    // an accumulated parameter that leaves the single-precision range (2.5e38 + 2.5e38, 2.5e38², their mean): every copy
    // still receives the one accumulated value — the infinite entry and all the ordinary ones.  The huge weight multiplies
    // a zero input component in the first repetition and saturates tanh in the second, so everything else stays finite.
    for acc in ["add", "mul", "mean", "sub"] {
        for loops in [2usize, 3] {
            let w = Tensor::double(vec![vec![2.5e38, 0.4], vec![0.3, -0.2]]);
            let b = Tensor::single(vec![0.1, -0.1]);
            let inner = InnerSpec::Dense { out: 2, act: "tanh".into(), bias: true, dropout: None, w, b: Some(b) };
            let mut net = NetSpec { input: Shape::Single(2), builds: vec![Build::Feedback { inner: vec![inner], loops, inskips: false, outskips: false, acc: acc.into() },
                Build::Layer(dense_spec(g, &cfg, 2, 1, "tanh", true))], skipacc: "add".into(), loopacc: "mean".into(), opt: None, obj: "mse".into(), clamp: None };
            net.opt = Some(OptSpec::Sgd(0.5, None));
            let x = Tensor::single(vec![0.0, 0.7]);
            let t = Tensor::single(vec![0.3]);
            g.push(format!("net {} learn 1 {} {} 0 1 1 0", net.token(), qt(&x), qt(&t)), Tol::Loose, &format!("learn/overflowing-accumulation/{}/L{}", acc, loops), true);
        }
    }
    // a step whose gradients are ALL exactly zero (an all-zero input into bias-free linear layers) after steps that moved the
    // copies: stateful optimizers still move every copy (carried momentum / moments), so the copies are re-tied all the same
    for (oi, o) in opts.iter().enumerate() {
        for acc in ["mean", "add"] {
            for loops in [2usize, 3] {
                if !g.ctx.thorough() && (oi + loops) % 2 == 1 && acc == "add" { continue; }
                let inner = InnerSpec::Dense { out: 2, act: "linear".into(), bias: false, dropout: None, w: Tensor::double(vec![vec![0.6, -0.3], vec![0.2, 0.5]]), b: None };
                let mut net = NetSpec { input: Shape::Single(2), builds: vec![Build::Feedback { inner: vec![inner], loops, inskips: false, outskips: false, acc: acc.into() }],
                    skipacc: "add".into(), loopacc: "mean".into(), opt: None, obj: "mse".into(), clamp: None };
                net.opt = Some(o.clone());
                let moving = format!("{} {}", qt(&Tensor::single(vec![0.7, -0.4])), qt(&Tensor::single(vec![0.3, 0.1])));
                let still = format!("{} {}", qt(&Tensor::single(vec![0.0, 0.0])), qt(&Tensor::single(vec![0.0, 0.0])));
                for e in [1usize, 2, 3] {
                    g.push(format!("net {} learn 2 {} {} 0 1 {} 0", net.token(), moving, still, e), Tol::Loose, &format!("learn/zero-gradient-step/{}/{}/L{}", o.kind(), acc, loops), true);
                }
            }
        }
    }
    // block weights that are exactly zero (and stay zero: the inputs are zero too) while the biases move, and copies whose
    // stepped values cancel under the coupling: an accumulated value that is exactly zero is written back like any other
    for acc in ["add", "mean", "mul", "sub"] {
        for loops in [2usize, 3] {
            let inner = InnerSpec::Dense { out: 2, act: "linear".into(), bias: true, dropout: None, w: Tensor::double(vec![vec![0.0, 0.0], vec![0.0, 0.0]]), b: Some(Tensor::single(vec![0.0, 0.0])) };
            let mut net = NetSpec { input: Shape::Single(2), builds: vec![Build::Feedback { inner: vec![inner], loops, inskips: false, outskips: false, acc: acc.into() },
                Build::Layer(dense_spec(g, &cfg, 2, 1, "linear", true))], skipacc: "add".into(), loopacc: "mean".into(), opt: None, obj: "mse".into(), clamp: None };
            net.opt = Some(OptSpec::Sgd(0.5, None));
            let zero = format!("{} {}", qt(&Tensor::single(vec![0.0, 0.0])), qt(&Tensor::single(vec![0.7])));
            let other = format!("{} {}", qt(&Tensor::single(vec![0.0, 0.0])), qt(&Tensor::single(vec![-0.4])));
            g.push(format!("net {} learn 2 {} {} 0 1 2 0", net.token(), zero, other), Tol::Loose, &format!("learn/zero-weights/{}/L{}", acc, loops), true);
        }
    }
    // the `overwrite` coupling is not implemented: training such a block is refused
    let (mut net, out) = block_net(g, &cfg, 2, false, false, "overwrite", false, true, false);
    net.opt = Some(OptSpec::Sgd(0.05, None));
    let s = samples_tok(g, &net, &out, 1);
    g.push(format!("net {} learn 1 {} 0 1 1 0", net.token(), s), Tol::Loose, "overwrite-coupling", true);
}

/* ---------------- C16 ---------------- */

/// equal-width dense stack (optionally with a spatial layer of the same element count in the middle)
fn skip_net(g: &mut Gen, cfg: &ArchCfg, depth: usize, width: usize, spatial_mid: bool) -> (NetSpec, Sh) {
    let mut builds = Vec::new();
    for i in 0..depth {
        if spatial_mid && i == 1 {
            // width must be a perfect square: conv 1x1 keeps 1 x r x r
            builds.push(Build::Layer(InnerSpec::Conv { filters: 1, act: "tanh".into(), k: (1, 1), s: (1, 1), p: (0, 0), d: (1, 1), dropout: None, ks: vec![weights(g, &Shape::Triple(1, 1, 1), 0.8)] }));
        } else {
            let act = g.rng().pick(&cfg.acts);
            let bias = g.rng().coin();
            builds.push(Build::Layer(dense_spec(g, cfg, width, width, act, bias)));
        }
    }
    (NetSpec { input: Shape::Single(width), builds, skipacc: "add".into(), loopacc: "mean".into(), opt: None, obj: "mse".into(), clamp: None }, Sh::Flat(width))
}

pub fn c16(g: &mut Gen) {
    let cfg = ArchCfg { wscale: 0.5, acts: vec!["tanh", "sigmoid", "linear"], ..ArchCfg::small() };
    // connect call sequences on a 4-layer stack: every pair, chains, duplicates, shared sources, self loops
    let seqs: Vec<Vec<(usize, usize)>> = vec![
        vec![(0, 1)], vec![(0, 2)], vec![(1, 3)], vec![(0, 3)],
        vec![(0, 1), (1, 2)], vec![(0, 1), (1, 2), (2, 3)], vec![(0, 2), (1, 3)],
        vec![(0, 2), (1, 2)], vec![(0, 3), (0, 3)], vec![(1, 2), (1, 3)], vec![(0, 1), (0, 2)],
        vec![(1, 1)], vec![(2, 1)], vec![(0, 4)], vec![(4, 4)], vec![(0, 2), (0, 2), (1, 3)],
    ];
    for seq in &seqs {
        for acc in ACCS.iter() {
            if *acc != "add" && seq.len() > 2 { continue; }
            let (mut net, out) = skip_net(g, &cfg, 4, 4, false);
            for (a, b) in seq { net.builds.push(Build::Connect(*a, *b)); }
            net.skipacc = acc.to_string();
            g.push(format!("net {} connectmap", net.token()), Tol::Exact, &format!("connect-seq/{}", seq.len()), true);
            let x = input_for(g, &net.input);
            g.push(format!("net {} predict {}", net.token(), qt(&x)), Tol::Tight, &format!("skip-forward/{}", acc), true);
            if *acc == "add" {
                let t = target_for(g, &out, "mse");
                g.push(format!("net {} backward {} {}", net.token(), qt(&x), qt(&t)), Tol::Tight, "skip-gradient", true);
            }
        }
    }
    // inputs that are zero in every element, and inputs with single zeros: a source that is exactly zero still takes part
    // in the accumulation (the mean still halves, the product is zero, overwrite hands on the zeros)
    for acc in ACCS.iter() {
        for seq in [vec![(0usize, 1usize)], vec![(0, 2)], vec![(0, 1), (1, 3)], vec![(1, 1)]] {
            let (mut net, out) = skip_net(g, &cfg, 4, 3, false);
            for (a, b) in &seq { net.builds.push(Build::Connect(*a, *b)); }
            net.skipacc = acc.to_string();
            for x in [vec![0.0f32, 0.0, 0.0], vec![0.0, 0.7, -0.0], vec![1.0, 1.0, 1.0], vec![3e-6, -2e-6, 4e-6]] {
                g.push(format!("net {} predict {}", net.token(), qt(&Tensor::single(x.clone()))), Tol::Tight, &format!("special-input-values/{}", acc), true);
                if *acc == "add" {
                    let t = target_for(g, &out, "mse");
                    g.push(format!("net {} backward {} {}", net.token(), qt(&Tensor::single(x)), qt(&t)), Tol::Tight, "special-input-values/gradient", true);
                }
            }
        }
    }
    // a connection into the FIRST layer (its only possible source is the network input itself): the first layer processes
    // the accumulation of the input with itself
    for acc in ACCS.iter() {
        let (mut net, out) = skip_net(g, &cfg, 3, 3, false);
        net.builds.push(Build::Connect(0, 0));
        net.skipacc = acc.to_string();
        g.push(format!("net {} connectmap", net.token()), Tol::Exact, "connect-seq/first-layer", true);
        let x = input_for(g, &net.input);
        g.push(format!("net {} predict {}", net.token(), qt(&x)), Tol::Tight, &format!("skip-forward/first-layer/{}", acc), true);
        if *acc == "add" {
            let t = target_for(g, &out, "mse");
            g.push(format!("net {} backward {} {}", net.token(), qt(&x), qt(&t)), Tol::Tight, "skip-gradient/first-layer", true);
        }
        let (mut net2, _) = skip_net(g, &cfg, 3, 3, false);
        net2.builds.push(Build::Connect(0, 0));
        net2.builds.push(Build::Connect(0, 2));
        net2.skipacc = acc.to_string();
        let x = input_for(g, &net2.input);
        g.push(format!("net {} predict {}", net2.token(), qt(&x)), Tol::Tight, &format!("skip-forward/first-layer-and-later/{}", acc), true);
    }
    // flat positions connected with spatial positions of several channels AND several columns, in both directions, every
    // accumulation (the reshape between them is the row-major re-indexing, element for element)
    for (c, h, w) in [(2usize, 2usize, 2usize), (2, 2, 3), (3, 1, 2)] {
        let n = c * h * w;
        let conv = |g: &mut Gen| InnerSpec::Conv { filters: c, act: "tanh".into(), k: (1, 1), s: (1, 1), p: (0, 0), d: (1, 1), dropout: None, ks: (0..c).map(|_| weights(g, &Shape::Triple(c, 1, 1), 0.5)).collect() };
        for (a, b) in [(1usize, 2usize), (0, 2), (1, 3), (2, 3)] {
            for acc in ACCS.iter() {
                if !g.ctx.thorough() && *acc != "add" && (a + b + c) % 2 == 1 { continue; }
                // layers: 0 conv (spatial in), 1 conv (spatial in), 2 dense (flat in), 3 dense (flat in)
                let builds = vec![Build::Layer(conv(g)), Build::Layer(conv(g)), Build::Layer(dense_spec(g, &cfg, n, n, "tanh", true)), Build::Layer(dense_spec(g, &cfg, n, 2, "linear", true)), Build::Connect(a, b)];
                let net = NetSpec { input: Shape::Triple(c, h, w), builds, skipacc: acc.to_string(), loopacc: "mean".into(), opt: None, obj: "mse".into(), clamp: None };
                let x = input_for(g, &net.input);
                g.push(format!("net {} predict {}", net.token(), qt(&x)), Tol::Tight, &format!("flat-multichannel/{}", acc), true);
                if *acc == "add" {
                    let t = target_for(g, &Sh::Flat(2), "mse");
                    g.push(format!("net {} backward {} {}", net.token(), qt(&x), qt(&t)), Tol::Tight, "flat-multichannel/gradient", true);
                }
            }
        }
        // dense -> multi-channel conv: flat source (layer 0's input) into the spatial layer 2
        let d0 = dense_spec(g, &cfg, n, n, "tanh", true);
        // (a dense layer in front of a spatial layer hands over 1 x r x r only: use the square counts)
        let _ = d0;
    }
    // chains configured back to front and in mixed order (whether a set of connections is accepted does not depend on the
    // order of the calls)
    for seq in [vec![(1usize, 2usize), (0, 1)], vec![(2, 3), (1, 2), (0, 1)], vec![(1, 3), (0, 1)], vec![(2, 3), (0, 2)], vec![(1, 2), (0, 1), (2, 3)]] {
        let (mut net, out) = skip_net(g, &cfg, 4, 4, false);
        for (a, b) in &seq { net.builds.push(Build::Connect(*a, *b)); }
        g.push(format!("net {} connectmap", net.token()), Tol::Exact, "connect-seq/back-to-front", true);
        let x = input_for(g, &net.input);
        g.push(format!("net {} predict {}", net.token(), qt(&x)), Tol::Tight, "skip-forward/back-to-front", true);
        let t = target_for(g, &out, "mse");
        g.push(format!("net {} backward {} {}", net.token(), qt(&x), qt(&t)), Tol::Tight, "skip-gradient/back-to-front", true);
    }
    // every layer kind as the SOURCE and as the TARGET of a connection, with layers that change the element count (an
    // up-sampling deconvolution, a strided convolution, a pooling layer): the counts compared are those of the two INPUTS
    {
        let dc = InnerSpec::Deconv { filters: 1, act: "tanh".into(), k: (2, 2), s: (2, 2), p: (0, 0), dropout: None, ks: vec![weights(g, &Shape::Triple(1, 2, 2), 0.5)] };
        let cv = InnerSpec::Conv { filters: 1, act: "tanh".into(), k: (2, 2), s: (2, 2), p: (0, 0), d: (1, 1), dropout: None, ks: vec![weights(g, &Shape::Triple(1, 2, 2), 0.5)] };
        let c1 = InnerSpec::Conv { filters: 1, act: "tanh".into(), k: (1, 1), s: (1, 1), p: (0, 0), d: (1, 1), dropout: None, ks: vec![weights(g, &Shape::Triple(1, 1, 1), 0.8)] };
        let mp = InnerSpec::Maxpool { k: (2, 2), s: (2, 2) };
        let variants: Vec<(Vec<InnerSpec>, (usize, usize), usize)> = vec![
            (vec![dc.clone(), cv.clone()], (0, 2), 4), (vec![c1.clone(), dc.clone(), cv.clone()], (1, 3), 4), (vec![dc.clone(), mp.clone()], (0, 2), 4),
            (vec![dc.clone(), cv.clone(), c1.clone()], (0, 2), 4), (vec![dc.clone(), cv.clone()], (0, 1), 4), (vec![dc.clone(), cv.clone()], (1, 2), 4)];
        for (layers, (a, b), count) in variants {
            for acc in ["add", "mean", "mul"] {
                let mut builds: Vec<Build> = layers.iter().cloned().map(Build::Layer).collect();
                builds.push(Build::Layer(dense_spec(g, &cfg, count, 3, "linear", true)));
                builds.push(Build::Connect(a, b));
                let net = NetSpec { input: Shape::Triple(1, 2, 2), builds, skipacc: acc.into(), loopacc: "mean".into(), opt: None, obj: "mse".into(), clamp: None };
                g.push(format!("net {} connectmap", net.token()), Tol::Exact, "connect/count-changing-layers", true);
                let x = input_for(g, &net.input);
                g.push(format!("net {} predict {}", net.token(), qt(&x)), Tol::Tight, &format!("skip-forward/count-changing-layers/{}", acc), true);
                if acc == "add" {
                    let t = target_for(g, &Sh::Flat(3), "mse");
                    g.push(format!("net {} backward {} {}", net.token(), qt(&x), qt(&t)), Tol::Tight, "skip-gradient/count-changing-layers", true);
                }
            }
        }
    }
    // flat <-> spatial with the same element count
    for acc in ACCS.iter() {
        let (mut net, out) = skip_net(g, &cfg, 3, 4, true);
        net.builds.push(Build::Connect(0, 1));
        net.skipacc = acc.to_string();
        let x = input_for(g, &net.input);
        g.push(format!("net {} predict {}", net.token(), qt(&x)), Tol::Tight, &format!("flat-to-spatial/{}", acc), true);
        let (mut net2, _) = skip_net(g, &cfg, 3, 4, true);
        net2.builds.push(Build::Connect(1, 2));
        net2.skipacc = acc.to_string();
        g.push(format!("net {} predict {}", net2.token(), qt(&x)), Tol::Tight, &format!("spatial-to-flat/{}", acc), true);
        if *acc == "add" {
            let t = target_for(g, &out, "mse");
            g.push(format!("net {} backward {} {}", net.token(), qt(&x), qt(&t)), Tol::Tight, "skip-gradient/flat-to-spatial", true);
        }
    }
    // spatial source and spatial target (the rank-3 arms of the accumulation primitives): a stack of
    // shape-preserving convolutions (c filters, 3x3, padding 1) with every accumulation and several skips
    for acc in ACCS.iter() {
        for (ci, seq) in [vec![(0usize, 1usize)], vec![(0, 2)], vec![(1, 2)], vec![(0, 1), (1, 2)], vec![(1, 1)]].iter().enumerate() {
            if !g.ctx.thorough() && *acc != "add" && *acc != "subtract" && ci % 2 == 1 { continue; }
            let c = 1 + ci % 2;
            let mut builds = Vec::new();
            for _ in 0..3 {
                let ks: Vec<Tensor> = (0..c).map(|_| weights(g, &Shape::Triple(c, 3, 3), 0.4)).collect();
                builds.push(Build::Layer(InnerSpec::Conv { filters: c, act: g.rng().pick(&["tanh", "sigmoid", "linear"]).to_string(), k: (3, 3), s: (1, 1), p: (1, 1), d: (1, 1), dropout: None, ks }));
            }
            builds.push(Build::Layer(dense_spec(g, &cfg, c * 3 * 4, 2, "tanh", true)));
            for (a, b) in seq { builds.push(Build::Connect(*a, *b)); }
            let net = NetSpec { input: Shape::Triple(c, 3, 4), builds, skipacc: acc.to_string(), loopacc: "mean".into(), opt: None, obj: "mse".into(), clamp: None };
            let x = input_for(g, &net.input);
            g.push(format!("net {} predict {}", net.token(), qt(&x)), Tol::Tight, &format!("spatial-to-spatial/{}", acc), true);
            if *acc == "add" {
                let t = target_for(g, &Sh::Flat(2), "mse");
                g.push(format!("net {} backward {} {}", net.token(), qt(&x), qt(&t)), Tol::Tight, "skip-gradient/spatial-to-spatial", true);
            }
        }
    }
    // skip connections whose end points are deconvolutions, max-pools and feedback blocks
    for (a, b) in [(1usize, 2usize), (2, 3), (1, 3), (0, 1), (1, 4), (2, 4), (3, 4), (1, 5), (2, 5), (4, 5), (0, 4), (3, 3), (4, 4)] {
        for acc in ["add", "mean"] {
            if !g.ctx.thorough() && acc == "mean" && (a + b) % 2 == 0 { continue; }
            let (mut net, out) = zoo_net(g, 1);
            net.builds.push(Build::Connect(a, b));
            net.skipacc = acc.to_string();
            g.push(format!("net {} connectmap", net.token()), Tol::Exact, "zoo/connect", true);
            let x = input_for(g, &net.input);
            g.push(format!("net {} predict {}", net.token(), qt(&x)), Tol::Tight, &format!("zoo/skip-forward/{}", acc), true);
            if acc == "add" && a != 0 && b != 4 && a != 4 {
                let t = target_for(g, &out, "mse");
                g.push(format!("net {} backward {} {}", net.token(), qt(&x), qt(&t)), Tol::Tight, "zoo/skip-gradient", true);
            }
        }
    }
    // skip connections into and out of flat feedback blocks
    for (a, b) in [(0usize, 1usize), (1, 2), (0, 2), (1, 3), (2, 3), (1, 1)] {
        let (mut net, _) = zoo_flat(g);
        net.builds.push(Build::Connect(a, b));
        g.push(format!("net {} connectmap", net.token()), Tol::Exact, "zoo-flat/connect", true);
        let x = input_for(g, &net.input);
        g.push(format!("net {} predict {}", net.token(), qt(&x)), Tol::Tight, "zoo-flat/skip-forward", true);
    }
    // the source is reshaped when it crosses the rank boundary: spatial source into a dense target whose ordinary
    // input is the flattened output of a convolution, and flat source into a convolution fed by another convolution
    for acc in ACCS.iter() {
        let k1 = |g: &mut Gen| InnerSpec::Conv { filters: 1, act: "tanh".into(), k: (1, 1), s: (1, 1), p: (0, 0), d: (1, 1), dropout: None, ks: vec![weights(g, &Shape::Triple(1, 1, 1), 0.8)] };
        let net = NetSpec { input: Shape::Triple(1, 2, 2), builds: vec![Build::Layer(k1(g)), Build::Layer(dense_spec(g, &cfg, 4, 4, "tanh", true)),
            Build::Layer(dense_spec(g, &cfg, 4, 2, "tanh", true)), Build::Connect(0, 1)], skipacc: acc.to_string(), loopacc: "mean".into(), opt: None, obj: "mse".into(), clamp: None };
        let x = input_for(g, &net.input);
        g.push(format!("net {} predict {}", net.token(), qt(&x)), Tol::Tight, &format!("reshape/spatial-into-flat/{}", acc), true);
        let net2 = NetSpec { input: Shape::Single(4), builds: vec![Build::Layer(dense_spec(g, &cfg, 4, 4, "tanh", true)), Build::Layer(k1(g)), Build::Layer(k1(g)),
            Build::Layer(dense_spec(g, &cfg, 4, 2, "tanh", true)), Build::Connect(0, 2)], skipacc: acc.to_string(), loopacc: "mean".into(), opt: None, obj: "mse".into(), clamp: None };
        let x2 = input_for(g, &net2.input);
        g.push(format!("net {} predict {}", net2.token(), qt(&x2)), Tol::Tight, &format!("reshape/flat-into-spatial/{}", acc), true);
        if *acc == "add" {
            let t = target_for(g, &Sh::Flat(2), "mse");
            g.push(format!("net {} backward {} {}", net.token(), qt(&x), qt(&t)), Tol::Tight, "reshape/skip-gradient", true);
            g.push(format!("net {} backward {} {}", net2.token(), qt(&x2), qt(&t)), Tol::Tight, "reshape/skip-gradient", true);
        }
    }
    // a connection from a layer to itself together with connections from the same layer to later ones (the source adds
    // its own processed-input gradient and those of the later targets, each once, whatever order the table is walked in:
    // the table is a hash map, so every network instance may walk it differently — several instances each)
    for seq in [vec![(1usize, 1usize), (1, 3)], vec![(1, 3), (1, 1)], vec![(0, 0), (0, 2)], vec![(1, 1), (1, 2), (1, 3)], vec![(2, 2), (2, 3), (0, 1)]] {
        for _ in 0..g.n(6, 16) {
            let (mut net, out) = skip_net(g, &cfg, 4, 4, false);
            for (a, b) in &seq { net.builds.push(Build::Connect(*a, *b)); }
            let x = input_for(g, &net.input);
            g.push(format!("net {} predict {}", net.token(), qt(&x)), Tol::Tight, "self-and-later/skip-forward", true);
            let t = target_for(g, &out, "mse");
            g.push(format!("net {} backward {} {}", net.token(), qt(&x), qt(&t)), Tol::Tight, "self-and-later/skip-gradient", true);
        }
    }
    // spatial source and spatial target of different extents but the same element count (2x3x2 into 1x3x4 and back):
    // the source is re-arranged to the target's extents, row-major
    for acc in ACCS.iter() {
        let narrow_to_wide = NetSpec { input: Shape::Triple(2, 3, 2), builds: vec![
            Build::Layer(InnerSpec::Deconv { filters: 1, act: "tanh".into(), k: (1, 3), s: (1, 1), p: (0, 0), dropout: None, ks: vec![weights(g, &Shape::Triple(2, 1, 3), 0.4)] }),
            Build::Layer(InnerSpec::Conv { filters: 1, act: "linear".into(), k: (1, 1), s: (1, 1), p: (0, 0), d: (1, 1), dropout: None, ks: vec![weights(g, &Shape::Triple(1, 1, 1), 0.9)] }),
            Build::Layer(dense_spec(g, &cfg, 12, 2, "tanh", true)), Build::Connect(0, 1)],
            skipacc: acc.to_string(), loopacc: "mean".into(), opt: None, obj: "mse".into(), clamp: None };
        let wide_to_narrow = NetSpec { input: Shape::Triple(1, 3, 4), builds: vec![
            Build::Layer(InnerSpec::Conv { filters: 2, act: "tanh".into(), k: (1, 3), s: (1, 1), p: (0, 0), d: (1, 1), dropout: None,
                ks: (0..2).map(|_| weights(g, &Shape::Triple(1, 1, 3), 0.4)).collect() }),
            Build::Layer(InnerSpec::Conv { filters: 2, act: "linear".into(), k: (1, 1), s: (1, 1), p: (0, 0), d: (1, 1), dropout: None,
                ks: (0..2).map(|_| weights(g, &Shape::Triple(2, 1, 1), 0.9)).collect() }),
            Build::Layer(dense_spec(g, &cfg, 12, 2, "tanh", true)), Build::Connect(0, 1)],
            skipacc: acc.to_string(), loopacc: "mean".into(), opt: None, obj: "mse".into(), clamp: None };
        // the same channel count on both sides, only height and width exchanged (1x2x4 into 1x4x2)
        let same_channels = NetSpec { input: Shape::Triple(1, 2, 4), builds: vec![
            Build::Layer(InnerSpec::Conv { filters: 1, act: "tanh".into(), k: (1, 3), s: (1, 1), p: (1, 0), d: (1, 1), dropout: None, ks: vec![weights(g, &Shape::Triple(1, 1, 3), 0.4)] }),
            Build::Layer(InnerSpec::Conv { filters: 1, act: "linear".into(), k: (1, 1), s: (1, 1), p: (0, 0), d: (1, 1), dropout: None, ks: vec![weights(g, &Shape::Triple(1, 1, 1), 0.9)] }),
            Build::Layer(dense_spec(g, &cfg, 8, 2, "tanh", true)), Build::Connect(0, 1)],
            skipacc: acc.to_string(), loopacc: "mean".into(), opt: None, obj: "mse".into(), clamp: None };
        for (ni, net) in [narrow_to_wide, wide_to_narrow, same_channels].iter().enumerate() {
            let x = input_for(g, &net.input);
            g.push(format!("net {} predict {}", net.token(), qt(&x)), Tol::Tight, &format!("spatial-rearranged{}/{}", ni, acc), true);
            if *acc == "add" {
                let t = target_for(g, &Sh::Flat(2), "mse");
                g.push(format!("net {} backward {} {}", net.token(), qt(&x), qt(&t)), Tol::Tight, "skip-gradient/spatial-rearranged", true);
            }
        }
    }
    // … the same with a spatial layer IN FRONT of the source (a convolution, a max-pool, a deconvolution whose output extents
    // differ from the target's input extents): the gradient handed back to it is the sum of the two gradients in the SOURCE's
    // arrangement, and the layers before the source receive the exact derivative too
    for variant in 0..4usize {
        let (input, front, src, tgt, count): (Shape, InnerSpec, InnerSpec, InnerSpec, usize) = match variant {
            0 => (Shape::Triple(1, 4, 4),
                InnerSpec::Conv { filters: 1, act: "tanh".into(), k: (3, 3), s: (1, 1), p: (1, 1), d: (1, 1), dropout: None, ks: vec![weights(g, &Shape::Triple(1, 3, 3), 0.4)] },
                InnerSpec::Conv { filters: 4, act: "tanh".into(), k: (2, 2), s: (2, 2), p: (0, 0), d: (1, 1), dropout: None, ks: (0..4).map(|_| weights(g, &Shape::Triple(1, 2, 2), 0.5)).collect() },
                InnerSpec::Conv { filters: 2, act: "tanh".into(), k: (1, 1), s: (1, 1), p: (0, 0), d: (1, 1), dropout: None, ks: (0..2).map(|_| weights(g, &Shape::Triple(4, 1, 1), 0.5)).collect() }, 8),
            1 => (Shape::Triple(2, 3, 2),
                InnerSpec::Conv { filters: 2, act: "tanh".into(), k: (1, 1), s: (1, 1), p: (0, 0), d: (1, 1), dropout: None, ks: (0..2).map(|_| weights(g, &Shape::Triple(2, 1, 1), 0.6)).collect() },
                InnerSpec::Deconv { filters: 1, act: "tanh".into(), k: (1, 3), s: (1, 1), p: (0, 0), dropout: None, ks: vec![weights(g, &Shape::Triple(2, 1, 3), 0.4)] },
                InnerSpec::Conv { filters: 1, act: "linear".into(), k: (1, 1), s: (1, 1), p: (0, 0), d: (1, 1), dropout: None, ks: vec![weights(g, &Shape::Triple(1, 1, 1), 0.9)] }, 12),
            2 => (Shape::Triple(1, 4, 6),
                InnerSpec::Maxpool { k: (2, 2), s: (2, 2) },
                InnerSpec::Conv { filters: 2, act: "tanh".into(), k: (1, 3), s: (1, 1), p: (0, 0), d: (1, 1), dropout: None, ks: (0..2).map(|_| weights(g, &Shape::Triple(1, 1, 3), 0.5)).collect() },
                InnerSpec::Conv { filters: 1, act: "tanh".into(), k: (1, 1), s: (1, 1), p: (0, 0), d: (1, 1), dropout: None, ks: vec![weights(g, &Shape::Triple(2, 1, 1), 0.7)] }, 2),
            _ => (Shape::Triple(1, 3, 3),
                InnerSpec::Deconv { filters: 1, act: "tanh".into(), k: (2, 2), s: (1, 1), p: (0, 0), dropout: None, ks: vec![weights(g, &Shape::Triple(1, 2, 2), 0.5)] },
                InnerSpec::Conv { filters: 4, act: "tanh".into(), k: (2, 2), s: (2, 2), p: (0, 0), d: (1, 1), dropout: None, ks: (0..4).map(|_| weights(g, &Shape::Triple(1, 2, 2), 0.5)).collect() },
                InnerSpec::Conv { filters: 1, act: "tanh".into(), k: (1, 1), s: (1, 1), p: (0, 0), d: (1, 1), dropout: None, ks: vec![weights(g, &Shape::Triple(4, 1, 1), 0.5)] }, 4),
        };
        let mut front_layers = vec![Build::Layer(front)];
        if variant == 0 { /* the source is layer 1, the target layer 2 */ }
        front_layers.push(Build::Layer(src));
        front_layers.push(Build::Layer(tgt));
        front_layers.push(Build::Layer(dense_spec(g, &cfg, count, 2, "tanh", true)));
        front_layers.push(Build::Connect(1, 2));
        for acc in ["add", "mean", "sub"] {
            let net = NetSpec { input: input.clone(), builds: front_layers.clone(), skipacc: acc.into(), loopacc: "mean".into(), opt: None, obj: "mse".into(), clamp: None };
            let x = input_for(g, &net.input);
            g.push(format!("net {} predict {}", net.token(), qt(&x)), Tol::Tight, &format!("spatial-rearranged-behind-a-layer{}/{}", variant, acc), true);
            if acc == "add" {
                let t = target_for(g, &Sh::Flat(2), "mse");
                g.push(format!("net {} backward {} {}", net.token(), qt(&x), qt(&t)), Tol::Tight, "skip-gradient/spatial-rearranged-behind-a-layer", true);
            }
        }
    }
    // the accumulation at the ends of the scale (subnormal operands, operands next to the smallest normal number, operands
    // whose sum overflows): two linear layers with diagonal weights, the second one the target of a connection from the first
    {
        let diag = |d: &[f32]| -> InnerSpec {
            let n = d.len();
            InnerSpec::Dense { out: n, act: "linear".into(), bias: false, dropout: None,
                w: Tensor::double((0..n).map(|i| (0..n).map(|j| if i == j { d[i] } else { 0.0 }).collect()).collect()), b: None }
        };
        let u = f32::from_bits(1);
        let inputs: Vec<Vec<f32>> = vec![vec![u, 3.0 * u, 6.0 * u], vec![f32::MIN_POSITIVE, f32::from_bits(f32::MIN_POSITIVE.to_bits() + 1), 5.0 * u],
            vec![3.0e38, -3.0e38, 2.5e38], vec![7.0 * u, -u, f32::from_bits(f32::MIN_POSITIVE.to_bits() - 1)], vec![1.0, -2.0, 0.5]];
        for acc in ACCS.iter() {
            for d in [[1.0f32, 1.0, 1.0], [2.0, 0.5, 1.0], [-1.0, 1.0, 3.0]] {
                let net = NetSpec { input: Shape::Single(3), builds: vec![Build::Layer(diag(&d)), Build::Layer(diag(&[1.0, 1.0, 1.0])), Build::Connect(0, 1)],
                    skipacc: acc.to_string(), loopacc: "mean".into(), opt: None, obj: "mse".into(), clamp: None };
                for x in &inputs {
                    g.push(format!("net {} predict {}", net.token(), qt(&Tensor::single(x.clone()))), Tol::Exact, &format!("scale-ends/{}", acc), true);
                }
            }
        }
    }
    // different element counts are refused
    let (mut net, _) = skip_net(g, &cfg, 2, 3, false);
    net.builds.push(Build::Layer(dense_spec(g, &cfg, 3, 2, "tanh", true)));
    net.builds.push(Build::Layer(dense_spec(g, &cfg, 2, 2, "tanh", true)));
    net.builds.push(Build::Connect(0, 3));
    g.push(format!("net {} connectmap", net.token()), Tol::Exact, "connect/count-mismatch", true);
    // seeded random stream
    for _ in 0..g.n(60, 1500) {
        let depth = g.rng().range(2, 5);
        let width = g.rng().pick(&[1usize, 2, 3, 4]);
        let mid = width == 4 && depth >= 3 && g.rng().coin();
        let (mut net, out) = skip_net(g, &cfg, depth, width, mid);
        let k = g.rng().range(1, 3);
        for _ in 0..k {
            let b = g.rng().range(1, depth - 1);
            let a = g.rng().below(b);
            net.builds.push(Build::Connect(a, b));
        }
        net.skipacc = g.rng().pick(&ACCS).to_string();
        let x = input_for(g, &net.input);
        g.push(format!("net {} predict {}", net.token(), qt(&x)), Tol::Tight, "random/skip-forward", true);
        if net.skipacc == "add" {
            net.obj = g.rng().pick(&["mse", "mae"]).to_string();
            let t = target_for(g, &out, &net.obj);
            g.push(format!("net {} backward {} {}", net.token(), qt(&x), qt(&t)), Tol::Tight, "random/skip-gradient", true);
        }
    }
}

/* ---------------- C17 ---------------- */

pub fn c17(g: &mut Gen) {
    let cfg = ArchCfg { wscale: 0.4, acts: vec!["tanh", "sigmoid", "linear"], ..ArchCfg::small() };
    let mut k = 0;
    for iters in 1..=g.n(3, 4) {
        for acc in ACCS.iter() {
            for inskips in [false, true] {
                for kind in 0..3usize {
                    k += 1;
                    if !g.ctx.thorough() && k % 2 == 0 && *acc != "overwrite" && *acc != "mean" { continue; }
                    // kind 0: dense range inside a dense stack; 1: conv range (same shape); 2: conv + max-pool(1x1) range followed by dense
                    let (mut net, lo, hi) = match kind {
                        0 => {
                            let (net, _) = skip_net(g, &cfg, 4, 3, false);
                            let lo = g.rng().below(3);
                            let hi = g.rng().range(lo, 3);
                            (net, lo, hi)
                        }
                        1 => {
                            let c = 2;
                            let mk = |g: &mut Gen| InnerSpec::Conv { filters: c, act: "tanh".into(), k: (3, 3), s: (1, 1), p: (1, 1), d: (1, 1), dropout: None,
                                ks: (0..c).map(|_| weights(g, &Shape::Triple(c, 3, 3), 0.3)).collect() };
                            let net = NetSpec { input: Shape::Triple(c, 3, 3), builds: vec![Build::Layer(mk(g)), Build::Layer(mk(g)), Build::Layer(mk(g))],
                                skipacc: "add".into(), loopacc: "mean".into(), opt: None, obj: "mse".into(), clamp: None };
                            (net, 1, 2)
                        }
                        _ => {
                            let c = 1;
                            let conv = InnerSpec::Conv { filters: c, act: "sigmoid".into(), k: (3, 3), s: (1, 1), p: (1, 1), d: (1, 1), dropout: None,
                                ks: vec![weights(g, &Shape::Triple(c, 3, 3), 0.3)] };
                            let net = NetSpec { input: Shape::Triple(c, 3, 3), builds: vec![Build::Layer(conv), Build::Layer(InnerSpec::Maxpool { k: (1, 1), s: (1, 1) }),
                                Build::Layer(dense_spec(g, &cfg, 9, 2, "tanh", true))], skipacc: "add".into(), loopacc: "mean".into(), opt: None, obj: "mse".into(), clamp: None };
                            (net, 0, 1)
                        }
                    };
                    net.builds.push(Build::Loopback { outof: hi, into: lo, iterations: iters, scale: "inv".into(), inskips });
                    net.loopacc = acc.to_string();
                    let x = input_for(g, &net.input);
                    g.push(format!("net {} predict {}", net.token(), qt(&x)), Tol::Tight,
                        &format!("k{}/{}/inskips{}/{}", iters, acc, inskips as u8, ["dense", "conv", "conv+maxpool"][kind]), true);
                }
            }
        }
    }
    // inputs that are zero in every element / all ones (the neutral elements of the accumulations): every iteration still
    // takes part (the mean still divides by the number of outputs)
    for acc in ACCS.iter() {
        for inskips in [false, true] {
            let c = ArchCfg { conv: false, deconv: false, pool: false, flat_input: Some(true), ..cfg.clone() };
            let mut net = NetSpec { input: Shape::Single(3), builds: vec![Build::Layer(dense_spec(g, &c, 3, 3, "linear", false)), Build::Layer(dense_spec(g, &c, 3, 3, "tanh", false)),
                Build::Layer(dense_spec(g, &c, 3, 2, "linear", true))], skipacc: "add".into(), loopacc: acc.to_string(), opt: None, obj: "mse".into(), clamp: None };
            net.builds.push(Build::Loopback { outof: 1, into: 0, iterations: 2, scale: "inv".into(), inskips });
            for x in [vec![0.0f32, 0.0, 0.0], vec![1.0, 1.0, 1.0], vec![0.0, -0.0, 0.5]] {
                g.push(format!("net {} predict {}", net.token(), qt(&Tensor::single(x))), Tol::Tight, &format!("special-input-values/{}/inskips{}", acc, inskips as u8), true);
            }
        }
    }
    // successive outputs that cancel exactly (a linear layer that negates / rotates: y0 = -x, y1 = x): a mean (sum) that is
    // exactly zero is passed on as zero
    for acc in ACCS.iter() {
        for iters in [1usize, 3] {
            let negate = InnerSpec::Dense { out: 2, act: "linear".into(), bias: false, dropout: None, w: Tensor::double(vec![vec![-1.0, 0.0], vec![0.0, -1.0]]), b: None };
            let rot = InnerSpec::Dense { out: 2, act: "linear".into(), bias: false, dropout: None, w: Tensor::double(vec![vec![0.0, -1.0], vec![1.0, 0.0]]), b: None };
            for (li, l) in [negate, rot].into_iter().enumerate() {
                let mut net = NetSpec { input: Shape::Single(2), builds: vec![Build::Layer(l)], skipacc: "add".into(), loopacc: acc.to_string(), opt: None, obj: "mse".into(), clamp: None };
                net.builds.push(Build::Loopback { outof: 0, into: 0, iterations: iters, scale: "inv".into(), inskips: false });
                g.push(format!("net {} predict {}", net.token(), qt(&Tensor::single(vec![1.5, -0.75]))), Tol::Tight, &format!("cancelling-outputs/{}/k{}/{}", acc, iters, li), true);
            }
            let neg3 = InnerSpec::Conv { filters: 2, act: "linear".into(), k: (1, 1), s: (1, 1), p: (0, 0), d: (1, 1), dropout: None,
                ks: vec![Tensor::triple(vec![vec![vec![-1.0]], vec![vec![0.0]]]), Tensor::triple(vec![vec![vec![0.0]], vec![vec![-1.0]]])] };
            let mut net = NetSpec { input: Shape::Triple(2, 1, 2), builds: vec![Build::Layer(neg3)], skipacc: "add".into(), loopacc: acc.to_string(), opt: None, obj: "mse".into(), clamp: None };
            net.builds.push(Build::Loopback { outof: 0, into: 0, iterations: iters, scale: "inv".into(), inskips: false });
            g.push(format!("net {} predict {}", net.token(), qt(&Tensor::triple(vec![vec![vec![1.5, -0.75]], vec![vec![0.5, 2.0]]]))), Tol::Tight, &format!("cancelling-outputs/{}/k{}/spatial", acc, iters), true);
        }
    }
    // loops that start behind a layer which CHANGES the shape (a dense layer changing the width, a convolution changing the
    // channel count, a strided convolution changing the map): with input skips the original input of layer a — the output
    // of that layer — is added in every iteration all the same
    for acc in ACCS.iter() {
        for inskips in [true, false] {
            for kind in 0..3usize {
                if !g.ctx.thorough() && !inskips && kind != 0 { continue; }
                let mut net = match kind {
                    0 => {
                        let c = ArchCfg { conv: false, deconv: false, pool: false, flat_input: Some(true), ..cfg.clone() };
                        NetSpec { input: Shape::Single(3), builds: vec![Build::Layer(dense_spec(g, &c, 3, 4, "tanh", true)), Build::Layer(dense_spec(g, &c, 4, 4, "tanh", true)),
                            Build::Layer(dense_spec(g, &c, 4, 4, "sigmoid", false)), Build::Layer(dense_spec(g, &c, 4, 2, "linear", true))],
                            skipacc: "add".into(), loopacc: "mean".into(), opt: None, obj: "mse".into(), clamp: None }
                    }
                    1 => {
                        let first = InnerSpec::Conv { filters: 2, act: "tanh".into(), k: (3, 3), s: (1, 1), p: (1, 1), d: (1, 1), dropout: None,
                            ks: (0..2).map(|_| weights(g, &Shape::Triple(1, 3, 3), 0.4)).collect() };
                        let mk = |g: &mut Gen| InnerSpec::Conv { filters: 2, act: "tanh".into(), k: (3, 3), s: (1, 1), p: (1, 1), d: (1, 1), dropout: None,
                            ks: (0..2).map(|_| weights(g, &Shape::Triple(2, 3, 3), 0.3)).collect() };
                        NetSpec { input: Shape::Triple(1, 3, 4), builds: vec![Build::Layer(first), Build::Layer(mk(g)), Build::Layer(mk(g))],
                            skipacc: "add".into(), loopacc: "mean".into(), opt: None, obj: "mse".into(), clamp: None }
                    }
                    _ => {
                        let first = InnerSpec::Conv { filters: 1, act: "tanh".into(), k: (2, 2), s: (2, 2), p: (0, 0), d: (1, 1), dropout: None,
                            ks: vec![weights(g, &Shape::Triple(1, 2, 2), 0.5)] };
                        let mk = |g: &mut Gen| InnerSpec::Conv { filters: 1, act: "sigmoid".into(), k: (3, 3), s: (1, 1), p: (1, 1), d: (1, 1), dropout: None,
                            ks: vec![weights(g, &Shape::Triple(1, 3, 3), 0.3)] };
                        NetSpec { input: Shape::Triple(1, 4, 6), builds: vec![Build::Layer(first), Build::Layer(mk(g)), Build::Layer(mk(g)), Build::Layer(dense_spec(g, &cfg, 6, 2, "tanh", true))],
                            skipacc: "add".into(), loopacc: "mean".into(), opt: None, obj: "mse".into(), clamp: None }
                    }
                };
                for (hi, lo, iters) in [(2usize, 1usize, 2usize), (1, 1, 1)] {
                    let mut n2 = net.clone();
                    n2.builds.push(Build::Loopback { outof: hi, into: lo, iterations: iters, scale: "inv".into(), inskips });
                    n2.loopacc = acc.to_string();
                    let x = input_for(g, &n2.input);
                    g.push(format!("net {} predict {}", n2.token(), qt(&x)), Tol::Tight,
                        &format!("behind-shape-change/{}/inskips{}/{}", acc, inskips as u8, ["dense", "conv-channels", "conv-stride"][kind]), true);
                }
                net.loopacc = acc.to_string();
            }
        }
    }
    // loop ranges made of deconvolutions and max-pools, and ranges that touch a feedback block (refused)
    for (hi, lo) in [(2usize, 1usize), (3, 1), (3, 2), (2, 2), (3, 3), (1, 1), (4, 3), (1, 0), (4, 4)] {
        for (ai, acc) in ACCS.iter().enumerate() {
            if !g.ctx.thorough() && (hi + lo + ai) % 2 == 1 { continue; }
            let (mut net, _) = zoo_net(g, 1);
            net.builds.push(Build::Loopback { outof: hi, into: lo, iterations: 1 + (hi + ai) % 3, scale: "inv".into(), inskips: (hi + lo + ai) % 3 == 0 });
            net.loopacc = acc.to_string();
            let x = input_for(g, &net.input);
            g.push(format!("net {} predict {}", net.token(), qt(&x)), Tol::Tight, &format!("zoo/loop/{}", acc), true);
        }
    }
    // tiny activations: successive outputs of the range differ by far less than 1e-5 and still are different values
    for acc in ACCS.iter() {
        for inskips in [false, true] {
            for iters in 2..=3usize {
                if !g.ctx.thorough() && iters == 3 && inskips { continue; }
                // one non-zero weight per row (a scaled permutation): every output is ONE product, so the result does not
                // depend on the order in which a row's terms are summed — the comparison can be bit for bit
                let pd = |g: &mut Gen, perm: [usize; 3], act: &str| -> InnerSpec {
                    let vals: Vec<f32> = (0..3).map(|_| { let v = g.rng().uniform(0.6, 1.4); if g.rng().below(4) == 0 { -v } else { v } }).collect();
                    InnerSpec::Dense { out: 3, act: act.into(), bias: false, dropout: None,
                        w: Tensor::double((0..3).map(|r| (0..3).map(|c| if perm[r] == c { vals[r] } else { 0.0 }).collect()).collect()), b: None }
                };
                let last = InnerSpec::Dense { out: 2, act: "linear".into(), bias: false, dropout: None,
                    w: Tensor::double(vec![vec![0.0, 1.25, 0.0], vec![-0.75, 0.0, 0.0]]), b: None };
                let builds = vec![Build::Layer(pd(g, [1, 2, 0], "linear")), Build::Layer(pd(g, [2, 0, 1], "relu")),
                    Build::Layer(pd(g, [0, 2, 1], "linear")), Build::Layer(last),
                    Build::Loopback { outof: 2, into: 1, iterations: iters, scale: "inv".into(), inskips }];
                let net = NetSpec { input: Shape::Single(3), builds, skipacc: "add".into(), loopacc: acc.to_string(), opt: None, obj: "mse".into(), clamp: None };
                for scale in [1e-6f32, 1e-9, 1.0] {
                    let x = input_for(g, &net.input);
                    let xs: Vec<f32> = crate::ops::tensor::flat_any(&x).iter().map(|v| v * scale).collect();
                    // (bit for bit only where nothing is summed: the order in which several repetitions are added up is free)
                    let tol = if *acc == "overwrite" { Tol::Exact } else { Tol::Tight };
                    g.push(format!("net {} predict {}", net.token(), qt(&Tensor::single(xs))), tol, &format!("tiny-scale/k{}/{}", iters, acc), true);
                }
            }
        }
    }
    // ranges of several spatial layers whose interior shape differs from the shape at the range's ends: more filters in the
    // middle (1 -> 2 -> 1), and a different arrangement of the same count (1x4x4 -> 4x2x2 -> 1x4x4)
    for acc in ACCS.iter() {
        for inskips in [false, true] {
            let wide_middle = NetSpec { input: Shape::Triple(1, 3, 4), builds: vec![
                Build::Layer(InnerSpec::Conv { filters: 2, act: "tanh".into(), k: (3, 3), s: (1, 1), p: (1, 1), d: (1, 1), dropout: None,
                    ks: (0..2).map(|_| weights(g, &Shape::Triple(1, 3, 3), 0.3)).collect() }),
                Build::Layer(InnerSpec::Conv { filters: 1, act: "tanh".into(), k: (3, 3), s: (1, 1), p: (1, 1), d: (1, 1), dropout: None,
                    ks: vec![weights(g, &Shape::Triple(2, 3, 3), 0.3)] }),
                Build::Layer(dense_spec(g, &cfg, 12, 2, "tanh", true)),
                Build::Loopback { outof: 1, into: 0, iterations: 1 + inskips as usize, scale: "inv".into(), inskips }],
                skipacc: "add".into(), loopacc: acc.to_string(), opt: None, obj: "mse".into(), clamp: None };
            let rearranged = NetSpec { input: Shape::Triple(1, 4, 4), builds: vec![
                Build::Layer(InnerSpec::Conv { filters: 4, act: "tanh".into(), k: (2, 2), s: (2, 2), p: (0, 0), d: (1, 1), dropout: None,
                    ks: (0..4).map(|_| weights(g, &Shape::Triple(1, 2, 2), 0.4)).collect() }),
                Build::Layer(InnerSpec::Deconv { filters: 1, act: "tanh".into(), k: (2, 2), s: (2, 2), p: (0, 0), dropout: None,
                    ks: vec![weights(g, &Shape::Triple(4, 2, 2), 0.4)] }),
                Build::Layer(dense_spec(g, &cfg, 16, 2, "tanh", true)),
                Build::Loopback { outof: 1, into: 0, iterations: 2 - inskips as usize, scale: "inv".into(), inskips }],
                skipacc: "add".into(), loopacc: acc.to_string(), opt: None, obj: "mse".into(), clamp: None };
            for (ni, net) in [wide_middle, rearranged].iter().enumerate() {
                let x = input_for(g, &net.input);
                g.push(format!("net {} predict {}", net.token(), qt(&x)), Tol::Tight, &format!("interior-shape{}/{}/inskips{}", ni, acc, inskips as u8), true);
            }
        }
    }
    // a range whose last layer is a spatial layer of SEVERAL channels and columns directly in front of a dense layer: its
    // flattened output goes back into layer a in the row-major arrangement, channel after channel
    for (ch, h, w) in [(2usize, 3usize, 2usize), (3, 2, 3), (2, 2, 4)] {
        for acc in ACCS.iter() {
            for (k, inskips) in [(1usize, false), (2, true), (3, false)] {
                if !g.ctx.thorough() && (ch + k) % 2 == 0 && *acc != "mean" && *acc != "add" { continue; }
                let conv = InnerSpec::Conv { filters: ch, act: "tanh".into(), k: (3, 3), s: (1, 1), p: (1, 1), d: (1, 1), dropout: None,
                    ks: (0..ch).map(|_| weights(g, &Shape::Triple(ch, 3, 3), 0.3)).collect() };
                let net = NetSpec { input: Shape::Triple(ch, h, w), builds: vec![Build::Layer(conv), Build::Layer(dense_spec(g, &cfg, ch * h * w, 3, "tanh", true)),
                    Build::Loopback { outof: 0, into: 0, iterations: k, scale: "inv".into(), inskips }],
                    skipacc: "add".into(), loopacc: acc.to_string(), opt: None, obj: "mse".into(), clamp: None };
                let x = input_for(g, &net.input);
                g.push(format!("net {} predict {}", net.token(), qt(&x)), Tol::Tight, &format!("flattened-range-end/{}x{}x{}/{}/k{}", ch, h, w, acc, k), true);
            }
        }
    }
    // input skips of a loop ADD the original input of layer a whatever accumulation the network's skip CONNECTIONS use (there
    // are none here): every skip accumulation x add / mean / overwrite loop accumulation x 1-2 iterations
    for sacc in ACCS.iter() {
        for lacc in ["add", "mean", "overwrite"] {
            for k in [1usize, 2] {
                let d = |g: &mut Gen, bias: bool| dense_spec(g, &cfg, 3, 3, "tanh", bias);
                let net = NetSpec { input: Shape::Single(3), builds: vec![Build::Layer(d(g, true)), Build::Layer(d(g, false)), Build::Layer(d(g, true)),
                    Build::Loopback { outof: 1, into: 0, iterations: k, scale: "inv".into(), inskips: true }],
                    skipacc: sacc.to_string(), loopacc: lacc.into(), opt: None, obj: "mse".into(), clamp: None };
                let x = input_for(g, &net.input);
                g.push(format!("net {} predict {}", net.token(), qt(&x)), Tol::Tight, &format!("inskips-under-skip-accumulation/{}/{}/k{}", sacc, lacc, k), true);
            }
        }
    }
    // two loop connections in one network (each keeps its own bookkeeping), ranges of different lengths
    for acc in ACCS.iter() {
        for inskips in [false, true] {
            for (l1, l2) in [((1usize, 0usize, 2usize), (3usize, 2usize, 1usize)), ((0, 0, 1), (3, 1, 2)), ((2, 0, 1), (3, 3, 3))] {
                if !g.ctx.thorough() && inskips && l1.0 == 0 { continue; }
                let (mut net, _) = skip_net(g, &cfg, 4, 3, false);
                net.builds.push(Build::Loopback { outof: l1.0, into: l1.1, iterations: l1.2, scale: "inv".into(), inskips });
                net.builds.push(Build::Loopback { outof: l2.0, into: l2.1, iterations: l2.2, scale: "inv".into(), inskips });
                net.loopacc = acc.to_string();
                let x = input_for(g, &net.input);
                g.push(format!("net {} predict {}", net.token(), qt(&x)), Tol::Tight, &format!("two-loops/{}/inskips{}", acc, inskips as u8), true);
            }
        }
    }
    // overlapping / nested loop connections: the closing layer of one loop lies inside the range of another (each loop
    // still repeats its own range its own number of times, whatever the per-layer `loops` counters have grown to)
    for acc in ACCS.iter() {
        for (l1, l2) in [((0usize, 0usize, 2usize), (1usize, 0usize, 1usize)), ((1, 1, 1), (2, 0, 2)), ((2, 1, 2), (3, 0, 1)), ((1, 0, 1), (2, 1, 3))] {
            if !g.ctx.thorough() && *acc != "add" && l1.0 == 2 { continue; }
            let (mut net, _) = skip_net(g, &cfg, 4, 3, false);
            net.builds.push(Build::Loopback { outof: l1.0, into: l1.1, iterations: l1.2, scale: "inv".into(), inskips: false });
            net.builds.push(Build::Loopback { outof: l2.0, into: l2.1, iterations: l2.2, scale: "inv".into(), inskips: false });
            net.loopacc = acc.to_string();
            let x = input_for(g, &net.input);
            g.push(format!("net {} predict {}", net.token(), qt(&x)), Tol::Tight, &format!("overlapping-loops/{}", acc), true);
        }
    }
    // validation of indices and shapes
    let (mut net, _) = skip_net(g, &cfg, 3, 3, false);
    net.builds.push(Build::Loopback { outof: 0, into: 1, iterations: 1, scale: "inv".into(), inskips: false });
    g.push(format!("net {} shapes", net.token()), Tol::Exact, "refused/outof<into", true);
    let (mut net, _) = skip_net(g, &cfg, 2, 3, false);
    net.builds.push(Build::Layer(dense_spec(g, &cfg, 3, 2, "tanh", true)));
    net.builds.push(Build::Loopback { outof: 2, into: 0, iterations: 1, scale: "inv".into(), inskips: false });
    g.push(format!("net {} shapes", net.token()), Tol::Exact, "refused/shape", true);
    let (mut net, _) = skip_net(g, &cfg, 3, 3, false);
    net.builds.push(Build::Loopback { outof: 2, into: 1, iterations: 1, scale: "inv".into(), inskips: false });
    net.builds.push(Build::Loopback { outof: 2, into: 0, iterations: 1, scale: "inv".into(), inskips: false });
    g.push(format!("net {} shapes", net.token()), Tol::Exact, "refused/duplicate", true);
}

/* ---------------- C01 ---------------- */

pub fn c01(g: &mut Gen) {
    let cfg = ArchCfg { max_layers: 5, max_dim: 6, max_stride: 3, max_dilation: 3, acts: vec!["tanh", "sigmoid", "linear", "leaky", "relu"], ..ArchCfg::small() };
    let objs = ["mse", "mae", "ae", "rmse", "bce", "kl", "ce"];
    // deterministic core: one convolution with stride/dilation in {1,2} x padding {0,1}, then dense; deconvolution; max-pool; dense chain
    for s in 1..=2usize {
        for d in 1..=2usize {
            for p in 0..=1usize {
                let (c, h, w) = (2usize, 5usize, 6usize);
                let k = (2usize, 3usize);
                let conv = InnerSpec::Conv { filters: 2, act: "tanh".into(), k, s: (s, 3 - s), p: (p, 1 - p), d: (d, 3 - d), dropout: None,
                    ks: (0..2).map(|_| weights(g, &Shape::Triple(c, k.0, k.1), 0.5)).collect() };
                let oh = (h + 2 * p - (d * (k.0 - 1) + 1)) / s + 1;
                let ow = (w + 2 * (1 - p) - ((3 - d) * (k.1 - 1) + 1)) / (3 - s) + 1;
                let net = NetSpec { input: Shape::Triple(c, h, w), builds: vec![Build::Layer(conv), Build::Layer(dense_spec(g, &cfg, 2 * oh * ow, 2, "sigmoid", true))],
                    skipacc: "add".into(), loopacc: "mean".into(), opt: None, obj: "mse".into(), clamp: None };
                let x = input_for(g, &net.input);
                let t = target_for(g, &Sh::Flat(2), "mse");
                g.push(format!("net {} backward {} {}", net.token(), qt(&x), qt(&t)), Tol::Tight, &format!("conv/s{}d{}p{}", s, d, p), true);
            }
        }
    }
    // small maps with many channels under padding (padded height <= channel count) between two other layers: the padding
    // offset is a matter of the map's height, not of its channel count
    for (c, h, w) in [(4usize, 2usize, 2usize), (3, 1, 1), (5, 3, 3), (6, 2, 3)] {
        let first = InnerSpec::Conv { filters: c, act: "tanh".into(), k: (1, 1), s: (1, 1), p: (0, 0), d: (1, 1), dropout: None,
            ks: (0..c).map(|_| weights(g, &Shape::Triple(1, 1, 1), 0.8)).collect() };
        let second = InnerSpec::Conv { filters: 2, act: "tanh".into(), k: (3, 3), s: (1, 1), p: (1, 1), d: (1, 1), dropout: None,
            ks: (0..2).map(|_| weights(g, &Shape::Triple(c, 3, 3), 0.4)).collect() };
        let net = NetSpec { input: Shape::Triple(1, h, w), builds: vec![Build::Layer(first), Build::Layer(second), Build::Layer(dense_spec(g, &cfg, 2 * h * w, 3, "linear", true))],
            skipacc: "add".into(), loopacc: "mean".into(), opt: None, obj: "mse".into(), clamp: None };
        let x = input_for(g, &net.input);
        let t = target_for(g, &Sh::Flat(3), "mse");
        g.push(format!("net {} backward {} {}", net.token(), qt(&x), qt(&t)), Tol::Tight, &format!("conv-many-channels/{}x{}x{}", c, h, w), true);
    }
    // soft-max output under cross-entropy (2, 3, 5 classes)
    for n in [2usize, 3, 5] {
        let c = ArchCfg { conv: false, deconv: false, pool: false, flat_input: Some(true), ..cfg.clone() };
        let net = NetSpec { input: Shape::Single(3), builds: vec![Build::Layer(dense_spec(g, &c, 3, 4, "tanh", true)), Build::Layer(dense_spec(g, &c, 4, n, "softmax", true))],
            skipacc: "add".into(), loopacc: "mean".into(), opt: None, obj: "ce".into(), clamp: None };
        let x = input_for(g, &net.input);
        let t = target_for(g, &Sh::Flat(n), "ce");
        g.push(format!("net {} backward {} {}", net.token(), qt(&x), qt(&t)), Tol::Tight, &format!("softmax-ce/{}", n), true);
        let mut onehot = vec![0.0f32; n];
        onehot[n - 1] = 1.0;
        g.push(format!("net {} backward {} {}", net.token(), qt(&x), qt(&Tensor::single(onehot))), Tol::Tight, &format!("softmax-ce/{}/one-hot", n), true);
    }
    // soft-max output whose logits are all strongly negative / all strongly positive (the gradients depend on the logit
    // differences only and are ordinary numbers)
    for bias in [-150.0f32, -110.0, 150.0] {
        let c = ArchCfg { conv: false, deconv: false, pool: false, flat_input: Some(true), ..cfg.clone() };
        let w = Tensor::double(vec![vec![0.5, -0.25, 0.125, 0.3], vec![-0.5, 0.75, 0.25, -0.2], vec![0.25, 0.25, -0.5, 0.1]]);
        let out = InnerSpec::Dense { out: 3, act: "softmax".into(), bias: true, dropout: None, w, b: Some(Tensor::single(vec![bias, bias - 1.5, bias + 1.0])) };
        let net = NetSpec { input: Shape::Single(3), builds: vec![Build::Layer(dense_spec(g, &c, 3, 4, "tanh", true)), Build::Layer(out)],
            skipacc: "add".into(), loopacc: "mean".into(), opt: None, obj: "ce".into(), clamp: None };
        let x = input_for(g, &net.input);
        g.push(format!("net {} backward {} {}", net.token(), qt(&x), qt(&Tensor::single(vec![0.0, 1.0, 0.0]))), Tol::Tight, "softmax-ce/shifted-logits", true);
    }
    // saturated activations whose tiny derivative is amplified by a huge following weight (the derivative at -50, -20,
    // +20 is an ordinary single-precision number; it must not be flushed to zero, overflow or turn into NaN)
    // (sigmoid on the negative side only, where the output stays O(1) and the objective is well conditioned: with tanh the
    // amplified output is huge and central differences of the objective lose the derivative to cancellation; y(1 - y) at large positive z is a cancellation whose *absolute* error is one
    // rounding of an O(1) quantity — amplifying it says nothing about the derivative being wrong)
    for (act, zs) in [("sigmoid", vec![-50.0f32, -20.0, -100.0, -80.0])] {
        for z in zs {
            let amp = if act == "sigmoid" { (-(z.abs().min(60.0))).exp().recip().min(1e21) * 0.1 } else { (2.0 * z.abs().min(40.0)).exp().min(1e21) * 0.02 };
            let w1 = Tensor::double(vec![vec![z, 0.0], vec![0.3, -0.2]]);
            let l1 = InnerSpec::Dense { out: 2, act: act.to_string(), bias: false, dropout: None, w: w1, b: None };
            let w2 = Tensor::double(vec![vec![amp, 0.5]]);
            let l2 = InnerSpec::Dense { out: 1, act: "linear".into(), bias: true, dropout: None, w: w2, b: Some(Tensor::single(vec![0.1])) };
            let net = NetSpec { input: Shape::Single(2), builds: vec![Build::Layer(l1), Build::Layer(l2)], skipacc: "add".into(), loopacc: "mean".into(), opt: None, obj: "mse".into(), clamp: None };
            let x = Tensor::single(vec![1.0, 0.5]);
            let t = Tensor::single(vec![0.25]);
            g.push(format!("net {} backward {} {}", net.token(), qt(&x), qt(&t)), Tol::Tight, &format!("saturated/{}/{}", act, z), true);
        }
    }
    // activations that are EXACTLY zero where the derivative is not (a tanh filter whose kernel is all zero: output 0,
    // derivative 1): the gradient a layer hands back does not depend on its input being non-zero, and the zero filter's
    // kernel gradient is that gradient times the image
    for second in ["conv", "deconv", "dense", "conv-linear"] {
        let (h, w) = (3usize, 4usize);
        let zero = Tensor::triple(vec![vec![vec![0.0; 3]; 3]]);
        let first = InnerSpec::Conv { filters: 2, act: "tanh".into(), k: (3, 3), s: (1, 1), p: (1, 1), d: (1, 1), dropout: None,
            ks: vec![weights(g, &Shape::Triple(1, 3, 3), 0.5), zero.clone()] };
        let mut builds = vec![Build::Layer(first)];
        let n_out = match second {
            "conv" | "conv-linear" => {
                builds.push(Build::Layer(InnerSpec::Conv { filters: 2, act: if second == "conv" { "tanh" } else { "linear" }.into(), k: (2, 3), s: (1, 1), p: (0, 1), d: (1, 1), dropout: None,
                    ks: (0..2).map(|_| weights(g, &Shape::Triple(2, 2, 3), 0.5)).collect() }));
                2 * (h - 1) * w
            }
            "deconv" => {
                builds.push(Build::Layer(InnerSpec::Deconv { filters: 2, act: "tanh".into(), k: (2, 3), s: (2, 1), p: (0, 1), dropout: None,
                    ks: (0..2).map(|_| weights(g, &Shape::Triple(2, 2, 3), 0.5)).collect() }));
                2 * ((h - 1) * 2 + 2) * ((w - 1) + 3 - 2)
            }
            _ => 2 * h * w,
        };
        builds.push(Build::Layer(dense_spec(g, &cfg, n_out, 2, "tanh", true)));
        let net = NetSpec { input: Shape::Triple(1, h, w), builds, skipacc: "add".into(), loopacc: "mean".into(), opt: None, obj: "mse".into(), clamp: None };
        for _ in 0..2 {
            let x = input_for(g, &net.input);
            let t = target_for(g, &Sh::Flat(2), "mse");
            g.push(format!("net {} backward {} {}", net.token(), qt(&x), qt(&t)), Tol::Tight, &format!("exact-zero-activations/{}", second), true);
        }
    }
    // … and a dense unit with zero weights and bias in front of a dense layer
    {
        let c = ArchCfg { conv: false, deconv: false, pool: false, flat_input: Some(true), ..cfg.clone() };
        let l1 = InnerSpec::Dense { out: 3, act: "tanh".into(), bias: true, dropout: None, w: Tensor::double(vec![vec![0.4, -0.3], vec![0.0, 0.0], vec![0.2, 0.5]]), b: Some(Tensor::single(vec![0.1, 0.0, -0.2])) };
        let net = NetSpec { input: Shape::Single(2), builds: vec![Build::Layer(l1), Build::Layer(dense_spec(g, &c, 3, 3, "sigmoid", true)), Build::Layer(dense_spec(g, &c, 3, 2, "linear", false))],
            skipacc: "add".into(), loopacc: "mean".into(), opt: None, obj: "mse".into(), clamp: None };
        let x = input_for(g, &net.input);
        let t = target_for(g, &Sh::Flat(2), "mse");
        g.push(format!("net {} backward {} {}", net.token(), qt(&x), qt(&t)), Tol::Tight, "exact-zero-activations/dense-dense", true);
    }
    // a training run that stops early must leave the network in inference mode (the gradients asked for afterwards are
    // derivatives of the objective only without a dropout mask in the forward pass)
    early_stopped_dropout_learn(g, "after-early-stop");
    // feedback blocks without internal skips
    for loops in 1..=3 {
        for spatial in [false, true] {
            let c = ArchCfg { acts: vec!["tanh", "sigmoid", "linear"], wscale: 0.5, ..cfg.clone() };
            let (net, out) = block_net(g, &c, loops, false, false, "add", spatial, true, false);
            let x = input_for(g, &net.input);
            let t = target_for(g, &out, "mse");
            g.push(format!("net {} backward {} {}", net.token(), qt(&x), qt(&t)), Tol::Tight, &format!("feedback/L{}/{}", loops, if spatial { "spatial" } else { "flat" }), true);
        }
    }
    // pooling windows WITHOUT a positive entry (a strictly negative tanh filter on a positive image; a pool as the first layer
    // on negative data): the maximum of negative numbers is the least negative one, and the gradient goes to that cell
    for first_pool in [false, true] {
        let (h, w) = (4usize, 6usize);
        let mut builds = Vec::new();
        let count;
        if first_pool {
            builds.push(Build::Layer(InnerSpec::Maxpool { k: (2, 2), s: (2, 2) }));
            builds.push(Build::Layer(InnerSpec::Conv { filters: 1, act: "tanh".into(), k: (2, 2), s: (1, 1), p: (0, 0), d: (1, 1), dropout: None, ks: vec![weights(g, &Shape::Triple(2, 2, 2), 0.5)] }));
            count = 1 * 1 * 2;
        } else {
            let neg = Tensor::triple(vec![vec![vec![-0.3, -0.5], vec![-0.2, -0.4]], vec![vec![-0.6, -0.1], vec![-0.25, -0.35]]]);
            builds.push(Build::Layer(InnerSpec::Conv { filters: 2, act: "tanh".into(), k: (2, 2), s: (1, 1), p: (0, 0), d: (1, 1), dropout: None, ks: vec![neg, weights(g, &Shape::Triple(2, 2, 2), 0.5)] }));
            builds.push(Build::Layer(InnerSpec::Maxpool { k: (2, 2), s: (1, 2) }));
            count = 2 * 2 * 2;
        }
        builds.push(Build::Layer(dense_spec(g, &cfg, count, 2, "tanh", true)));
        let net = NetSpec { input: Shape::Triple(2, h, w), builds, skipacc: "add".into(), loopacc: "mean".into(), opt: None, obj: "mse".into(), clamp: None };
        for _ in 0..2 {
            let mut x = input_for(g, &net.input);
            // (positive image behind a negative filter; negative image into a first-layer pool), distinct values: no ties
            if let Data::Triple(v) = &mut x.data {
                let mut k = 0.0f32;
                for m in v.iter_mut() { for r in m.iter_mut() { for e in r.iter_mut() { k += 1.0; *e = (e.abs() + 0.05 + 0.013 * k) * if first_pool { -1.0 } else { 1.0 }; } } }
            }
            let t = target_for(g, &Sh::Flat(2), "mse");
            g.push(format!("net {} backward {} {}", net.token(), qt(&x), qt(&t)), Tol::Tight, &format!("maxpool/no-positive-entry/{}", if first_pool { "first-layer" } else { "after-negative-filter" }), true);
            g.push(format!("net {} predict {}", net.token(), qt(&x)), Tol::Tight, "maxpool/no-positive-entry/predict", true);
        }
    }
    // overlapping pooling windows (stride < kernel): a cell that is the arg-max of several windows collects all their gradients
    for (k, st) in [((2usize, 2usize), (1usize, 1usize)), ((3, 2), (1, 1)), ((2, 3), (1, 2))] {
        let conv = InnerSpec::Conv { filters: 1, act: "tanh".into(), k: (3, 3), s: (1, 1), p: (1, 1), d: (1, 1), dropout: None, ks: vec![weights(g, &Shape::Triple(1, 3, 3), 0.5)] };
        let (h, w) = (4usize, 5usize);
        let (oh, ow) = ((h - k.0) / st.0 + 1, (w - k.1) / st.1 + 1);
        let net = NetSpec { input: Shape::Triple(1, h, w), builds: vec![Build::Layer(conv), Build::Layer(InnerSpec::Maxpool { k, s: st }),
            Build::Layer(dense_spec(g, &cfg, oh * ow, 2, "tanh", true))], skipacc: "add".into(), loopacc: "mean".into(), opt: None, obj: "mse".into(), clamp: None };
        for _ in 0..2 {
            let x = input_for(g, &net.input);
            let t = target_for(g, &Sh::Flat(2), "mse");
            g.push(format!("net {} backward {} {}", net.token(), qt(&x), qt(&t)), Tol::Tight, "maxpool/overlapping-windows", true);
        }
    }
    // every layer kind next to every other, with feedback blocks (no internal skips) in the chain
    for c in 1..=2usize {
        let (net, out) = zoo_net(g, c);
        let x = input_for(g, &net.input);
        let t = target_for(g, &out, "mse");
        g.push(format!("net {} backward {} {}", net.token(), qt(&x), qt(&t)), Tol::Tight, "zoo/backward", true);
    }
    // networks with a dropout rate somewhere (inactive outside training): a convolution / deconvolution directly in front of a
    // dense layer, dropout on the spatial layer or on the dense layer — the gradients are those of the plain operators, also
    // after a stand-alone evaluation of the same object (the harness calls validate before these requests)
    for kind in 0..4usize {
        let c = ArchCfg { dropout: false, wscale: 0.5, ..ArchCfg::small() };
        let half = Some(0.5f32);
        let (input, first, count) = match kind {
            0 => (Shape::Triple(1, 3, 4), InnerSpec::Conv { filters: 2, act: "tanh".into(), k: (2, 2), s: (1, 1), p: (0, 0), d: (1, 1), dropout: None, ks: (0..2).map(|_| weights(g, &Shape::Triple(1, 2, 2), 0.5)).collect() }, 12),
            1 => (Shape::Triple(1, 3, 4), InnerSpec::Conv { filters: 2, act: "tanh".into(), k: (2, 2), s: (1, 1), p: (0, 0), d: (1, 1), dropout: half, ks: (0..2).map(|_| weights(g, &Shape::Triple(1, 2, 2), 0.5)).collect() }, 12),
            2 => (Shape::Triple(1, 2, 3), InnerSpec::Deconv { filters: 1, act: "tanh".into(), k: (2, 2), s: (1, 1), p: (0, 0), dropout: None, ks: vec![weights(g, &Shape::Triple(1, 2, 2), 0.5)] }, 12),
            _ => (Shape::Triple(1, 4, 4), InnerSpec::Maxpool { k: (2, 2), s: (2, 2) }, 4),
        };
        let mut mid = dense_spec(g, &c, count, 5, "tanh", true);
        if let InnerSpec::Dense { dropout, .. } = &mut mid { *dropout = half; }
        let builds = vec![Build::Layer(first), Build::Layer(mid), Build::Layer(dense_spec(g, &c, 5, 2, "linear", true))];
        let net = NetSpec { input, builds, skipacc: "add".into(), loopacc: "mean".into(), opt: None, obj: "mse".into(), clamp: None };
        let x = input_for(g, &net.input);
        let t = target_for(g, &Sh::Flat(2), "mse");
        g.push(format!("net {} backward {} {}", net.token(), qt(&x), qt(&t)), Tol::Tight, &format!("dropout-configured/after-evaluation/kind{}", kind), true);
    }
    // seeded random stream: any depth / mix, all objectives
    for i in 0..g.n(150, 4000) {
        let (mut net, out) = random_net(g, &cfg);
        net.obj = objs[i % objs.len()].to_string();
        if matches!(net.obj.as_str(), "bce" | "kl" | "ce") {
            // predictions must lie in (0,1): end in a sigmoid / soft-max dense layer
            let act = if net.obj == "ce" { "softmax" } else { "sigmoid" };
            let n = out.count();
            let c = ArchCfg { conv: false, deconv: false, pool: false, ..cfg.clone() };
            let o = g.rng().range(2, 4);
            net.builds.push(Build::Layer(dense_spec(g, &c, n, o, act, true)));
            let x = input_for(g, &net.input);
            let t = target_for(g, &Sh::Flat(o), &net.obj);
            g.push(format!("net {} backward {} {}", net.token(), qt(&x), qt(&t)), Tol::Tight, &format!("random/{}", net.obj), true);
        } else {
            let x = input_for(g, &net.input);
            let t = target_for(g, &out, &net.obj);
            g.push(format!("net {} backward {} {}", net.token(), qt(&x), qt(&t)), Tol::Tight, &format!("random/{}", net.obj), true);
        }
    }
    let _ = flat;
}

/* ---------------- C05 (protocol part: the model agrees with the single-threaded result) ---------------- */

pub fn c05(g: &mut Gen) {
    let cfg = ArchCfg { final_dense: Some(3), max_layers: 4, max_dim: 4, ..ArchCfg::small() };
    for _ in 0..g.n(6, 40) {
        let (mut net, out) = random_net(g, &cfg);
        net.opt = Some(random_opt(g));
        let n = g.rng().range(3, 7);
        let s = samples_tok(g, &net, &out, n);
        let b = g.rng().range(2, 4);
        g.push(format!("net {} learn {} {} 0 {} 2 0", net.token(), n, s, b), Tol::Loose, "learn", true);
        let xs: Vec<String> = (0..70).map(|_| { let x = input_for(g, &net.input); qt(&x) }).collect();
        g.push(format!("net {} predict_batch 70 {}", net.token(), xs.join(" ")), Tol::Tight, "predict_batch/70", true);
    }
}
