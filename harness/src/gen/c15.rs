//! C15: element-wise arithmetic, one request per op × rank, shape mismatches, special values.

use super::*;

fn mismatched(s: &Shape) -> Vec<Shape> {
    match s {
        Shape::Single(n) => vec![Shape::Single(n + 1), Shape::Double(1, *n), Shape::Triple(1, 1, *n)],
        Shape::Double(r, c) => vec![Shape::Double(*c + 1, *r), Shape::Double(*r, c + 1), Shape::Single(r * c)],
        Shape::Triple(a, r, c) => vec![Shape::Triple(*a, *c + 1, *r), Shape::Triple(a + 1, *r, *c), Shape::Single(a * r * c)],
        Shape::Quadruple(f, a, r, c) => vec![Shape::Quadruple(*f, *a, *r, c + 1), Shape::Quadruple(f + 1, *a, *r, *c), Shape::Triple(f * a, *r, *c)],
        _ => vec![],
    }
}

fn binops(g: &mut Gen, a: &Tensor, b: &Tensor, label: &str, nt: bool) {
    let s = g.val(false);
    g.push(format!("t.add {} {}", qt(a), qt(b)), Tol::Exact, &format!("add/{}", label), nt);
    g.push(format!("t.sub {} {}", qt(a), qt(b)), Tol::Exact, &format!("sub/{}", label), nt);
    g.push(format!("t.mul {} {}", qt(a), qt(b)), Tol::Exact, &format!("mul/{}", label), nt);
    g.push(format!("t.had {} {} {}", qt(a), qt(b), hx(s)), Tol::Exact, &format!("hadamard/{}", label), nt);
}

pub fn generate(g: &mut Gen) {
    // deterministic core: every op on every rank it supports, dims <= 3 (quick) / 4 (thorough)
    let max = g.n(3, 4);
    let mut shapes: Vec<Shape> = Vec::new();
    for a in 1..=max {
        shapes.push(Shape::Single(a));
        for b in 1..=max {
            shapes.push(Shape::Double(a, b));
            for c in 1..=max {
                if a + b + c <= max + 4 {
                    shapes.push(Shape::Triple(a, b, c));
                }
                if a <= 2 && b <= 2 {
                    for d in 1..=2 {
                        shapes.push(Shape::Quadruple(a, b, c, d));
                    }
                }
            }
        }
    }
    for s in &shapes {
        let rank = match s { Shape::Single(_) => "1d", Shape::Double(..) => "2d", Shape::Triple(..) => "3d", _ => "4d" };
        let a = g.tensor_of(s, false);
        let b = g.tensor_of(s, false);
        let nt = nontrivial_tensor(&a);
        binops(g, &a, &b, rank, nt);
        let sc = g.val(false);
        g.push(format!("t.divs {} {}", qt(&a), hx(sc)), Tol::Exact, &format!("divscalar/{}", rank), nt);
        for k in 1..=g.n(2, 5) {
            let others: Vec<String> = (0..k).map(|_| { let o = g.tensor_of(s, false); qt(&o) }).collect();
            // one addition and one division (k = 1) have a unique IEEE result; a sum of three or more terms may be associated in any order
            g.push(format!("t.mean {} {} {}", qt(&a), k, others.join(" ")), if k <= 1 { Tol::Exact } else { Tol::Tight }, &format!("mean/{}/k{}", rank, k), nt);
        }
        g.push(format!("t.clamp {} {} {}", qt(&a), hx(-0.5), hx(0.75)), Tol::Exact, &format!("clamp/{}", rank), nt);
        // mismatching shapes: must be refused
        for m in mismatched(s) {
            let c = g.tensor_of(&m, false);
            g.push(format!("t.add {} {}", qt(&a), qt(&c)), Tol::Exact, "mismatch/add", true);
            g.push(format!("t.sub {} {}", qt(&a), qt(&c)), Tol::Exact, "mismatch/sub", true);
            g.push(format!("t.mul {} {}", qt(&a), qt(&c)), Tol::Exact, "mismatch/mul", true);
            g.push(format!("t.had {} {} {}", qt(&a), qt(&c), hx(1.0)), Tol::Exact, "mismatch/hadamard", true);
            g.push(format!("t.mean {} 2 {} {}", qt(&a), qt(&b), qt(&c)), Tol::Exact, "mismatch/mean", true);
        }
    }
    // long extents (longer than any block a vectorised loop might use, and not a multiple of it) in every position of
    // every rank: every element of the result is the operation on its own pair
    let long: Vec<Shape> = vec![Shape::Single(8), Shape::Single(9), Shape::Single(11), Shape::Single(15), Shape::Single(16), Shape::Single(17), Shape::Single(23),
        Shape::Single(33), Shape::Single(40), Shape::Single(65), Shape::Double(2, 9), Shape::Double(9, 2), Shape::Double(1, 17), Shape::Double(17, 1),
        Shape::Triple(1, 2, 9), Shape::Triple(2, 9, 1), Shape::Triple(9, 1, 2), Shape::Triple(1, 1, 19), Shape::Quadruple(1, 1, 2, 9), Shape::Quadruple(1, 1, 9, 2),
        Shape::Quadruple(2, 1, 1, 11), Shape::Quadruple(9, 1, 2, 1), Shape::Quadruple(1, 10, 1, 1)];
    for s in &long {
        let rank = match s { Shape::Single(_) => "1d", Shape::Double(..) => "2d", Shape::Triple(..) => "3d", _ => "4d" };
        let a = g.tensor_of(s, false);
        let b = g.tensor_of(s, false);
        binops(g, &a, &b, &format!("long/{}", rank), true);
        let sc = g.val(false);
        g.push(format!("t.divs {} {}", qt(&a), hx(sc)), Tol::Exact, &format!("divscalar/long/{}", rank), true);
        let o = g.tensor_of(s, false);
        g.push(format!("t.mean {} 1 {}", qt(&a), qt(&b)), Tol::Exact, &format!("mean/long/{}/k1", rank), true);
        g.push(format!("t.mean {} 2 {} {}", qt(&a), qt(&b), qt(&o)), Tol::Tight, &format!("mean/long/{}/k2", rank), true);
        g.push(format!("t.clamp {} {} {}", qt(&a), hx(-0.5), hx(0.75)), Tol::Exact, &format!("clamp/long/{}", rank), true);
    }
    // operands that cancel exactly (x and -x), exact zeros and ones in one operand: the result is still the operation on
    // every pair (a sum that is exactly zero is a zero; a factor that is exactly zero gives a zero)
    for s in [Shape::Single(5), Shape::Double(2, 3), Shape::Triple(2, 2, 2), Shape::Quadruple(1, 2, 2, 2)] {
        let rank = match s { Shape::Single(_) => "1d", Shape::Double(..) => "2d", Shape::Triple(..) => "3d", _ => "4d" };
        let a = g.tensor_of(&s, false);
        let mut neg = a.clone();
        let mut zeros = a.clone();
        let mut mixed = a.clone();
        let mut k = 0usize;
        let mut each = |t: &mut Tensor, f: &mut dyn FnMut(usize, f32) -> f32| {
            let mut i = 0usize;
            match &mut t.data {
                Data::Single(v) => v.iter_mut().for_each(|x| { *x = f(i, *x); i += 1; }),
                Data::Double(v) => v.iter_mut().flatten().for_each(|x| { *x = f(i, *x); i += 1; }),
                Data::Triple(v) => v.iter_mut().flatten().flatten().for_each(|x| { *x = f(i, *x); i += 1; }),
                Data::Quadruple(v) => v.iter_mut().flatten().flatten().flatten().for_each(|x| { *x = f(i, *x); i += 1; }),
                _ => (),
            }
        };
        each(&mut neg, &mut |_, x| -x);
        each(&mut zeros, &mut |_, _| 0.0);
        each(&mut mixed, &mut |i, x| { k += 1; match i % 4 { 0 => 0.0, 1 => -0.0, 2 => 1.0, _ => x } });
        for (label, b) in [("negated", &neg), ("zeros", &zeros), ("zeros-and-ones", &mixed)] {
            binops(g, &a, b, &format!("special-operand/{}/{}", label, rank), true);
            binops(g, b, &a, &format!("special-operand/{}/{}/swapped", label, rank), true);
            g.push(format!("t.mean {} 1 {}", qt(&a), qt(b)), Tol::Exact, &format!("mean/special-operand/{}/{}", label, rank), true);
            g.push(format!("t.mean {} 1 {}", qt(b), qt(&a)), Tol::Exact, &format!("mean/special-operand/{}/{}/swapped", label, rank), true);
            g.push(format!("t.mean {} 2 {} {}", qt(&a), qt(b), qt(&a)), Tol::Tight, &format!("mean/special-operand/{}/{}/k2", label, rank), true);
        }
    }
    // one-sided and unbounded clamp intervals (an infinite bound on one side, on both), every rank
    for s in [Shape::Single(6), Shape::Double(2, 3), Shape::Triple(1, 2, 3), Shape::Quadruple(1, 1, 2, 3)] {
        let a = Tensor { shape: s.clone(), data: match &s {
            Shape::Single(_) => Data::Single(vec![7.5, -7.5, 0.5, -0.5, 1.0, -1.0]),
            Shape::Double(..) => Data::Double(vec![vec![7.5, -7.5, 0.5], vec![-0.5, 1.0, -1.0]]),
            Shape::Triple(..) => Data::Triple(vec![vec![vec![7.5, -7.5, 0.5], vec![-0.5, 1.0, -1.0]]]),
            _ => Data::Quadruple(vec![vec![vec![vec![7.5, -7.5, 0.5], vec![-0.5, 1.0, -1.0]]]]),
        } };
        for (lo, hi) in [(f32::NEG_INFINITY, 1.0f32), (-1.0, f32::INFINITY), (f32::NEG_INFINITY, f32::INFINITY), (f32::NEG_INFINITY, -2.0), (2.0, f32::INFINITY), (f32::MIN, 0.25), (-0.25, f32::MAX)] {
            g.push(format!("t.clamp {} {} {}", qt(&a), hx(lo), hx(hi)), Tol::Exact, "clamp/one-sided", true);
        }
    }
    // mean with no others is refused
    let a = g.tensor_of(&Shape::Single(3), false);
    g.push(format!("t.mean {} 0", qt(&a)), Tol::Exact, "mean/empty", true);
    // clamp with min > max is refused
    g.push(format!("t.clamp {} {} {}", qt(&a), hx(1.0), hx(-1.0)), Tol::Exact, "clamp/inverted", true);
    g.push(format!("t.clamp {} {} {}", qt(&a), hx(0.25), hx(0.25)), Tol::Exact, "clamp/degenerate", true);

    // nested lists: addition and scalar division (and the optional variant)
    for k in 1..=3 {
        let sh: Vec<Shape> = (0..k).map(|i| if i % 2 == 0 { Shape::Double(2, 3) } else { Shape::Triple(2, 2, 2) }).collect();
        let a: Vec<Tensor> = sh.iter().map(|s| g.tensor_of(s, false)).collect();
        let b: Vec<Tensor> = sh.iter().map(|s| g.tensor_of(s, false)).collect();
        let ja = a.iter().map(qt).collect::<Vec<_>>().join(" ");
        let jb = b.iter().map(qt).collect::<Vec<_>>().join(" ");
        g.push(format!("t.addnested {} {} {} {}", k, ja, k, jb), Tol::Exact, "nested/add", true);
        g.push(format!("t.subnested {} {} {} {}", k, ja, k, jb), Tol::Exact, "nested/sub", true);
        g.push(format!("t.mulnested {} {} {} {}", k, ja, k, jb), Tol::Exact, "nested/mul", true);
        g.push(format!("t.divnested {} {} {}", k, ja, hx(3.0)), Tol::Exact, "nested/divscalar", true);
        // different lengths are refused
        let jb1 = b.iter().skip(1).map(qt).collect::<Vec<_>>().join(" ");
        g.push(format!("t.addnested {} {} {} {}", k, ja, k - 1, jb1), Tol::Exact, "nested/add/mismatch", true);
        // optional: every other entry missing
        let oa = a.iter().enumerate().map(|(i, t)| if i % 2 == 1 { "none".to_string() } else { qt(t) }).collect::<Vec<_>>().join(" ");
        let ob = b.iter().enumerate().map(|(i, t)| if i % 2 == 1 { "none".to_string() } else { qt(t) }).collect::<Vec<_>>().join(" ");
        g.push(format!("t.addnestedopt {} {} {} {}", k, oa, k, ob), Tol::Exact, "nested/addopt", true);
    }

    // linear-algebra helpers
    for r in 1..=max {
        for c in 1..=max {
            let m = g.tensor_of(&Shape::Double(r, c), false);
            let x = g.tensor_of(&Shape::Single(c), false);
            let y = g.tensor_of(&Shape::Single(r), false);
            // the matrix-vector product is a sum: any summation order is a correct implementation
            g.push(format!("t.dot {} {}", qt(&m), qt(&x)), Tol::Tight, "dot", r * c >= 2);
            g.push(format!("t.transpose {}", qt(&m)), Tol::Exact, "transpose", r * c >= 2);
            g.push(format!("t.product {} {}", qt(&y), qt(&x)), Tol::Exact, "product", r * c >= 2);
        }
    }
    // hadamard3d, pad3d (used by the convolution), argmax
    for _ in 0..g.n(20, 200) {
        let (c, h, w) = (g.rng().range(1, 3), g.rng().range(1, 4), g.rng().range(1, 4));
        let a = g.tensor_of(&Shape::Triple(c, h, w), false);
        let b = g.tensor_of(&Shape::Triple(c, h, w), false);
        let s = g.val(false);
        g.push(format!("t.had3d {} {} {}", qt(&a), qt(&b), hx(s)), Tol::Exact, "hadamard3d", true);
        let (ih, iw) = (g.rng().range(1, 7), g.rng().range(1, 7));
        g.push(format!("t.pad3d {} {} {}", qt(&a), ih, iw), Tol::Exact, if ih >= h && iw >= w { "pad3d/grow" } else { "pad3d/crop" }, true);
        let n = g.rng().range(1, 6);
        let v = g.tensor_of(&Shape::Single(n), false);
        g.push(format!("t.argmax {}", qt(&v)), Tol::Exact, "argmax", n >= 2);
    }
    // argmax ties: the last maximal index
    g.push(format!("t.argmax S 4 {} {} {} {}", hx(1.0), hx(2.0), hx(2.0), hx(0.5)), Tol::Exact, "argmax/tie", true);
    g.push(format!("t.argmax S 3 {} {} {}", hx(1.0), hx(f32::NAN), hx(0.5)), Tol::Exact, "argmax/nan", true);

    // seeded random stream with special values (±0, subnormals, huge, …)
    for _ in 0..g.n(300, 6000) {
        let rank = g.rng().range(1, 4);
        let s = g.shape_of_rank(rank, 4);
        let a = g.tensor_of(&s, true);
        let b = g.tensor_of(&s, true);
        let label = format!("random/{}d", rank);
        match g.rng().below(7) {
            0 => g.push(format!("t.add {} {}", qt(&a), qt(&b)), Tol::Exact, &label, true),
            1 => g.push(format!("t.sub {} {}", qt(&a), qt(&b)), Tol::Exact, &label, true),
            2 => g.push(format!("t.mul {} {}", qt(&a), qt(&b)), Tol::Exact, &label, true),
            3 => { let sc = g.val(true); g.push(format!("t.had {} {} {}", qt(&a), qt(&b), hx(sc)), Tol::Exact, &label, true) }
            4 => { let sc = g.val(true); g.push(format!("t.divs {} {}", qt(&a), hx(sc)), Tol::Exact, &label, true) }
            5 => {
                let k = g.rng().range(1, 5);
                let others: Vec<String> = (0..k).map(|_| { let o = g.tensor_of(&s, true); qt(&o) }).collect();
                g.push(format!("t.mean {} {} {}", qt(&a), k, others.join(" ")), if k <= 1 { Tol::Exact } else { Tol::Tight }, &label, true)
            }
            _ => {
                let (x, y) = (g.val(true), g.val(true));
                let (lo, hi) = if x <= y { (x, y) } else { (y, x) };
                g.push(format!("t.clamp {} {} {}", qt(&a), hx(lo), hx(hi)), Tol::Exact, &label, true)
            }
        }
    }
}
