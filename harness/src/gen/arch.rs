//! Type-directed generator of valid architectures (and of their parameters).

use super::*;
use crate::ops::net::{Build, InnerSpec, NetSpec};
use crate::ops::reference::Sh;
use crate::ops::scalar::OptSpec;

#[derive(Clone)]
pub struct ArchCfg {
    pub min_layers: usize,
    pub max_layers: usize,
    pub dense: bool,
    pub conv: bool,
    pub deconv: bool,
    pub pool: bool,
    pub acts: Vec<&'static str>,
    pub dropout: bool,
    pub final_dense: Option<usize>, // force a last dense layer with at most this many outputs
    pub flat_input: Option<bool>,
    pub max_dim: usize,
    pub max_stride: usize,
    pub max_dilation: usize,
    pub max_padding: usize,
    pub wscale: f32,
}

impl ArchCfg {
    pub fn small() -> ArchCfg {
        ArchCfg {
            min_layers: 1, max_layers: 4, dense: true, conv: true, deconv: true, pool: true,
            acts: vec!["relu", "leaky", "sigmoid", "tanh", "linear"], dropout: false, final_dense: None,
            flat_input: None, max_dim: 6, max_stride: 2, max_dilation: 2, max_padding: 2, wscale: 0.6,
        }
    }
}

pub fn weights(g: &mut Gen, s: &Shape, scale: f32) -> Tensor {
    let mut t = g.tensor_of(s, false);
    let f = |x: &mut f32| *x *= scale;
    match &mut t.data {
        Data::Single(v) => v.iter_mut().for_each(f),
        Data::Double(v) => v.iter_mut().flatten().for_each(f),
        Data::Triple(v) => v.iter_mut().flatten().flatten().for_each(f),
        Data::Quadruple(v) => v.iter_mut().flatten().flatten().flatten().for_each(f),
        _ => (),
    }
    t
}

fn isqrt(n: usize) -> Option<usize> {
    let r = (n as f64).sqrt().round() as usize;
    if r * r == n { Some(r) } else { None }
}

fn dropout_of(g: &mut Gen, cfg: &ArchCfg) -> Option<f32> {
    if cfg.dropout && g.rng().below(2) == 0 { Some(g.rng().pick(&[0.1f32, 0.5, 0.9])) } else { None }
}

pub fn dense_spec(g: &mut Gen, cfg: &ArchCfg, inp: usize, out: usize, act: &str, bias: bool) -> InnerSpec {
    InnerSpec::Dense {
        out, act: act.to_string(), bias, dropout: dropout_of(g, cfg),
        w: weights(g, &Shape::Double(out, inp), cfg.wscale),
        b: if bias { Some(weights(g, &Shape::Single(out), cfg.wscale)) } else { None },
    }
}

/// a random spatial layer that fits `(c, h, w)`; returns the spec and its output shape
pub fn spatial_spec(g: &mut Gen, cfg: &ArchCfg, kind: usize, c: usize, h: usize, w: usize, act: &str) -> Option<(InnerSpec, Sh)> {
    match kind {
        0 => {
            // convolution
            let p = (g.rng().below(cfg.max_padding + 1), g.rng().below(cfg.max_padding + 1));
            let d = (g.rng().range(1, cfg.max_dilation), g.rng().range(1, cfg.max_dilation));
            let s = (g.rng().range(1, cfg.max_stride), g.rng().range(1, cfg.max_stride));
            let kmax = |i: usize, p: usize, d: usize| ((i + 2 * p - 1) / d + 1).min(3);
            let (kh_max, kw_max) = (kmax(h, p.0, d.0), kmax(w, p.1, d.1));
            if kh_max == 0 || kw_max == 0 { return None; }
            let k = (g.rng().range(1, kh_max), g.rng().range(1, kw_max));
            let f = g.rng().range(1, 3);
            let oh = (h + 2 * p.0 - d.0 * (k.0 - 1) - 1) / s.0 + 1;
            let ow = (w + 2 * p.1 - d.1 * (k.1 - 1) - 1) / s.1 + 1;
            let ks = (0..f).map(|_| weights(g, &Shape::Triple(c, k.0, k.1), cfg.wscale)).collect();
            Some((InnerSpec::Conv { filters: f, act: act.to_string(), k, s, p, d, dropout: dropout_of(g, cfg), ks }, Sh::Vol(f, oh, ow)))
        }
        1 => {
            // deconvolution: keep the output small
            let s = (g.rng().range(1, cfg.max_stride), g.rng().range(1, cfg.max_stride));
            let k = (g.rng().range(1, 3), g.rng().range(1, 3));
            let p = (g.rng().below(2), g.rng().below(2));
            let oh0 = (h - 1) * s.0 + k.0;
            let ow0 = (w - 1) * s.1 + k.1;
            if oh0 <= 2 * p.0 || ow0 <= 2 * p.1 { return None; }
            let (oh, ow) = (oh0 - 2 * p.0, ow0 - 2 * p.1);
            let f = g.rng().range(1, 2);
            if f * oh * ow > 200 { return None; }
            let ks = (0..f).map(|_| weights(g, &Shape::Triple(c, k.0, k.1), cfg.wscale)).collect();
            Some((InnerSpec::Deconv { filters: f, act: act.to_string(), k, s, p, dropout: dropout_of(g, cfg), ks }, Sh::Vol(f, oh, ow)))
        }
        _ => {
            let k = (g.rng().range(1, h.min(3)), g.rng().range(1, w.min(3)));
            let s = (g.rng().range(1, cfg.max_stride), g.rng().range(1, cfg.max_stride));
            Some((InnerSpec::Maxpool { k, s }, Sh::Vol(c, (h - k.0) / s.0 + 1, (w - k.1) / s.1 + 1)))
        }
    }
}

pub fn random_input(g: &mut Gen, cfg: &ArchCfg) -> Sh {
    let flat = cfg.flat_input.unwrap_or_else(|| g.rng().below(3) == 0) || !(cfg.conv || cfg.deconv || cfg.pool);
    if flat {
        // perfect squares are common so that spatial layers can follow a flat entry
        let n = if cfg.conv && g.rng().coin() { g.rng().pick(&[4usize, 9, 16, 25]) } else { g.rng().range(1, 6) };
        Sh::Flat(n)
    } else {
        Sh::Vol(g.rng().range(1, 3), g.rng().range(2, cfg.max_dim), g.rng().range(2, cfg.max_dim))
    }
}

/// the sequence of layers; returns the builds and the final shape
pub fn random_layers(g: &mut Gen, cfg: &ArchCfg, input: &Sh) -> (Vec<Build>, Sh) {
    let n = g.rng().range(cfg.min_layers, cfg.max_layers);
    let mut builds = Vec::new();
    let mut cur = input.clone();
    let mut tries = 0;
    while builds.len() < n && tries < 40 {
        tries += 1;
        let act = g.rng().pick(&cfg.acts);
        let spatial_ok = cfg.conv || cfg.deconv || cfg.pool;
        let as_vol: Option<(usize, usize, usize)> = match &cur {
            Sh::Vol(c, h, w) => Some((*c, *h, *w)),
            Sh::Flat(k) => isqrt(*k).filter(|r| *r >= 2).map(|r| (1, r, r)),
        };
        // a spatial layer may not be first on a flat network input
        let first_flat = builds.is_empty() && matches!(input, Sh::Flat(_));
        let want_spatial = spatial_ok && as_vol.is_some() && !first_flat && (g.rng().below(3) != 0 || !cfg.dense);
        if want_spatial {
            let kinds: Vec<usize> = [(cfg.conv, 0usize), (cfg.deconv, 1), (cfg.pool, 2)].iter().filter(|(b, _)| *b).map(|(_, k)| *k).collect();
            let kind = g.rng().pick(&kinds);
            let (c, h, w) = as_vol.unwrap();
            if let Some((spec, out)) = spatial_spec(g, cfg, kind, c, h, w, act) {
                if out.count() >= 1 && out.count() <= 200 {
                    builds.push(Build::Layer(spec));
                    cur = out;
                }
            }
        } else if cfg.dense && !(builds.is_empty() && matches!(input, Sh::Vol(..))) {
            let out = if spatial_ok && g.rng().below(3) == 0 { g.rng().pick(&[4usize, 9]) } else { g.rng().range(1, 5) };
            let bias = g.rng().coin();
            builds.push(Build::Layer(dense_spec(g, cfg, cur.count(), out, act, bias)));
            cur = Sh::Flat(out);
        }
    }
    if let Some(maxo) = cfg.final_dense {
        let need = !matches!(builds.last(), Some(Build::Layer(InnerSpec::Dense { .. })));
        if need || builds.is_empty() {
            if !(builds.is_empty() && matches!(input, Sh::Vol(..))) {
                let out = g.rng().range(1, maxo);
                let act = g.rng().pick(&cfg.acts);
                let bias = g.rng().coin();
                builds.push(Build::Layer(dense_spec(g, cfg, cur.count(), out, act, bias)));
                cur = Sh::Flat(out);
            }
        }
    }
    (builds, cur)
}

pub fn random_net(g: &mut Gen, cfg: &ArchCfg) -> (NetSpec, Sh) {
    loop {
        let input = random_input(g, cfg);
        let (builds, out) = random_layers(g, cfg, &input);
        if builds.len() >= cfg.min_layers.max(1) && (cfg.final_dense.is_none() || matches!(builds.last(), Some(Build::Layer(InnerSpec::Dense { .. })))) {
            return (NetSpec { input: input.to_shape(), builds, skipacc: "add".into(), loopacc: "mean".into(), opt: None, obj: "mse".into(), clamp: None }, out);
        }
    }
}

/// a generic input for a network input shape (values away from zero)
pub fn input_for(g: &mut Gen, s: &Shape) -> Tensor {
    g.tensor_of(s, false)
}

pub fn target_for(g: &mut Gen, out: &Sh, obj: &str) -> Tensor {
    let n = out.count();
    let v: Vec<f32> = match obj {
        "ce" | "kl" => {
            // a probability vector
            let raw: Vec<f32> = (0..n).map(|_| g.rng().uniform(0.1, 1.0)).collect();
            let s: f32 = raw.iter().sum();
            raw.iter().map(|x| x / s).collect()
        }
        "bce" => (0..n).map(|_| g.rng().uniform(0.1, 0.9)).collect(),
        _ => (0..n).map(|_| g.rng().generic()).collect(),
    };
    match out {
        Sh::Flat(_) => Tensor::single(v),
        Sh::Vol(_, h, w) => Tensor::triple(v.chunks(h * w).map(|m| m.chunks(*w).map(|r| r.to_vec()).collect()).collect()),
    }
}

pub fn random_opt(g: &mut Gen) -> OptSpec {
    let lr = g.rng().uniform(0.005, 0.05);
    match g.rng().below(5) {
        0 => OptSpec::Sgd(lr, if g.rng().coin() { Some(0.01) } else { None }),
        1 => OptSpec::Sgdm(lr, 0.9, 0.0, None),
        2 => OptSpec::Adam(lr, 0.9, 0.999, 1e-8, None),
        3 => OptSpec::AdamW(lr, 0.9, 0.999, 1e-8, 0.01),
        _ => OptSpec::Rmsprop(lr, 0.9, 1e-8, None, if g.rng().coin() { Some(0.5) } else { None }, g.rng().coin()),
    }
}


/// a heterogeneous stack of shape-preserving layers on a `c x 3 x 3` input — every layer kind next to every
/// other, feedback blocks in the middle, a dense layer at the end — so that builders, skip connections and loop
/// connections meet every kind of neighbour.  Layers: 0 feedback{conv}, 1 conv, 2 deconv (1x1), 3 max-pool (1x1),
/// 4 feedback{deconv}, 5 dense.
pub fn zoo_net(g: &mut Gen, c: usize) -> (NetSpec, Sh) {
    let conv = |g: &mut Gen, act: &str| InnerSpec::Conv { filters: c, act: act.to_string(), k: (3, 3), s: (1, 1), p: (1, 1), d: (1, 1), dropout: None,
        ks: (0..c).map(|_| weights(g, &Shape::Triple(c, 3, 3), 0.35)).collect() };
    let deconv3 = |g: &mut Gen, act: &str| InnerSpec::Deconv { filters: c, act: act.to_string(), k: (3, 3), s: (1, 1), p: (1, 1), dropout: None,
        ks: (0..c).map(|_| weights(g, &Shape::Triple(c, 3, 3), 0.35)).collect() };
    let deconv1 = |g: &mut Gen, act: &str| InnerSpec::Deconv { filters: c, act: act.to_string(), k: (1, 1), s: (1, 1), p: (0, 0), dropout: None,
        ks: (0..c).map(|_| weights(g, &Shape::Triple(c, 1, 1), 0.8)).collect() };
    let cfg = ArchCfg::small();
    let builds = vec![
        Build::Feedback { inner: vec![conv(g, "tanh")], loops: 2, inskips: false, outskips: false, acc: "add".into() },
        Build::Layer(conv(g, "sigmoid")),
        Build::Layer(deconv1(g, "tanh")),
        Build::Layer(InnerSpec::Maxpool { k: (1, 1), s: (1, 1) }),
        Build::Feedback { inner: vec![deconv3(g, "tanh")], loops: 2, inskips: false, outskips: false, acc: "add".into() },
        Build::Layer(dense_spec(g, &cfg, c * 9, 2, "tanh", true)),
    ];
    (NetSpec { input: Shape::Triple(c, 3, 3), builds, skipacc: "add".into(), loopacc: "mean".into(), opt: None, obj: "mse".into(), clamp: None }, Sh::Flat(2))
}


/// the other neighbourhoods: 0 conv, 1 feedback{conv}, 2 deconv (after a block), 3 feedback{deconv} (after a
/// deconvolution), 4 feedback{conv, max-pool 1x1} (after a block), 5 max-pool (after a block), 6 dense
pub fn zoo_net2(g: &mut Gen, c: usize) -> (NetSpec, Sh) {
    let conv = |g: &mut Gen, act: &str| InnerSpec::Conv { filters: c, act: act.to_string(), k: (3, 3), s: (1, 1), p: (1, 1), d: (1, 1), dropout: None,
        ks: (0..c).map(|_| weights(g, &Shape::Triple(c, 3, 3), 0.35)).collect() };
    let deconv3 = |g: &mut Gen, act: &str| InnerSpec::Deconv { filters: c, act: act.to_string(), k: (3, 3), s: (1, 1), p: (1, 1), dropout: None,
        ks: (0..c).map(|_| weights(g, &Shape::Triple(c, 3, 3), 0.35)).collect() };
    let cfg = ArchCfg::small();
    let builds = vec![
        Build::Layer(conv(g, "tanh")),
        Build::Feedback { inner: vec![conv(g, "sigmoid")], loops: 2, inskips: false, outskips: false, acc: "mean".into() },
        Build::Layer(deconv3(g, "tanh")),
        Build::Feedback { inner: vec![deconv3(g, "tanh")], loops: 1, inskips: false, outskips: false, acc: "add".into() },
        Build::Feedback { inner: vec![conv(g, "tanh"), InnerSpec::Maxpool { k: (1, 1), s: (1, 1) }], loops: 2, inskips: false, outskips: false, acc: "add".into() },
        Build::Layer(InnerSpec::Maxpool { k: (1, 1), s: (1, 1) }),
        Build::Layer(dense_spec(g, &cfg, c * 9, 2, "tanh", true)),
    ];
    (NetSpec { input: Shape::Triple(c, 3, 3), builds, skipacc: "add".into(), loopacc: "mean".into(), opt: None, obj: "mse".into(), clamp: None }, Sh::Flat(2))
}

/// flat neighbourhoods: 0 dense, 1 feedback{dense} (after dense), 2 feedback{dense, dense} (after a block), 3 dense (after a block)
pub fn zoo_flat(g: &mut Gen) -> (NetSpec, Sh) {
    let cfg = ArchCfg::small();
    let builds = vec![
        Build::Layer(dense_spec(g, &cfg, 3, 3, "tanh", true)),
        Build::Feedback { inner: vec![dense_spec(g, &cfg, 3, 3, "sigmoid", true)], loops: 2, inskips: false, outskips: false, acc: "mean".into() },
        Build::Feedback { inner: vec![dense_spec(g, &cfg, 3, 2, "tanh", false), dense_spec(g, &cfg, 2, 3, "tanh", true)], loops: 2, inskips: false, outskips: false, acc: "add".into() },
        Build::Layer(dense_spec(g, &cfg, 3, 2, "tanh", true)),
    ];
    (NetSpec { input: Shape::Single(3), builds, skipacc: "add".into(), loopacc: "mean".into(), opt: None, obj: "mse".into(), clamp: None }, Sh::Flat(2))
}
