//! Implementation side of the line protocol: parse a request, run the real library code, render the
//! result exactly as the Lean driver renders the model's.  Property-level oracles that need the typed
//! arguments are evaluated here as well and recorded in the context.

use crate::util::*;
use neurons::tensor::{Data, Shape, Tensor};

pub struct Toks<'a> {
    it: std::str::SplitWhitespace<'a>,
}

impl<'a> Toks<'a> {
    pub fn new(s: &'a str) -> Self {
        Toks { it: s.split_whitespace() }
    }
    pub fn tok(&mut self) -> &'a str {
        self.it.next().expect("unexpected end of request")
    }
    pub fn peek_none(&mut self) -> bool {
        let mut c = self.it.clone();
        if c.next() == Some("none") {
            self.it.next();
            true
        } else {
            false
        }
    }
    pub fn nat(&mut self) -> usize {
        self.tok().parse().expect("nat")
    }
    pub fn u64(&mut self) -> u64 {
        self.tok().parse().expect("u64")
    }
    pub fn boolean(&mut self) -> bool {
        self.nat() != 0
    }
    /// an optional trailing natural number (absent = 0)
    pub fn opt_trailing_nat(&mut self) -> usize {
        match self.it.next() {
            Some(t) => t.parse().expect("nat"),
            None => 0,
        }
    }
    pub fn flt(&mut self) -> f32 {
        f32::from_bits(u32::from_str_radix(self.tok(), 16).expect("hex float"))
    }
    pub fn opt_f(&mut self) -> Option<f32> {
        if self.peek_none() {
            None
        } else {
            Some(self.flt())
        }
    }
    pub fn v1(&mut self, n: usize) -> Vec<f32> {
        (0..n).map(|_| self.flt()).collect()
    }
    pub fn v2(&mut self, r: usize, c: usize) -> Vec<Vec<f32>> {
        (0..r).map(|_| self.v1(c)).collect()
    }
    pub fn v3(&mut self, a: usize, r: usize, c: usize) -> Vec<Vec<Vec<f32>>> {
        (0..a).map(|_| self.v2(r, c)).collect()
    }
    pub fn shape(&mut self) -> Shape {
        match self.tok() {
            "S" => Shape::Single(self.nat()),
            "D" => Shape::Double(self.nat(), self.nat()),
            "T" => Shape::Triple(self.nat(), self.nat(), self.nat()),
            "Q" => Shape::Quadruple(self.nat(), self.nat(), self.nat(), self.nat()),
            "N" => Shape::Nested(self.nat()),
            t => panic!("shape token {}", t),
        }
    }
    /// tensors are built with struct literals so that degenerate (empty) ones can be expressed
    pub fn tensor(&mut self) -> Tensor {
        let shape = self.shape();
        let data = match shape {
            Shape::Single(n) => Data::Single(self.v1(n)),
            Shape::Double(r, c) => Data::Double(self.v2(r, c)),
            Shape::Triple(a, r, c) => Data::Triple(self.v3(a, r, c)),
            Shape::Quadruple(f, a, r, c) => Data::Quadruple((0..f).map(|_| self.v3(a, r, c)).collect()),
            _ => panic!("nested tensors are passed as lists"),
        };
        Tensor { shape, data }
    }
    pub fn opt_tensor(&mut self) -> Option<Tensor> {
        if self.peek_none() {
            None
        } else {
            Some(self.tensor())
        }
    }
    pub fn tensors(&mut self, k: usize) -> Vec<Tensor> {
        (0..k).map(|_| self.tensor()).collect()
    }
    pub fn nats(&mut self, k: usize) -> Vec<usize> {
        (0..k).map(|_| self.nat()).collect()
    }
}

pub fn exec(ctx: &mut Ctx, line: &str) -> String {
    let mut p = Toks::new(line);
    let op = p.tok();
    if op.starts_with("t.") {
        crate::ops::tensor::exec(ctx, op, &mut p)
    } else if op.starts_with("rnd.") {
        crate::ops::random::exec(ctx, op, &mut p)
    } else if op.starts_with("act.") || op.starts_with("obj.") || op.starts_with("opt.") {
        crate::ops::scalar::exec(ctx, op, &mut p)
    } else if op == "net" {
        crate::ops::net::exec(ctx, op, &mut p)
    } else if op == "ping" {
        "ok pong".to_string()
    } else if op == "lit" {
        crate::ops::lit(&mut p)
    } else {
        format!("bad unknown op {}", op)
    }
}
