//! Correspondence harness: runs the real `neurons` code (current /repo working tree, feature
//! `verif`) and the Lean model's driver on the same request lines and reports where they differ,
//! plus property-level oracle failures observed on the implementation alone.

mod exec;
mod gen;
mod ops;
mod util;

use std::collections::{BTreeMap, HashSet};
use std::io::{BufRead, BufReader, Write};
use std::process::{Command, Stdio};
use util::*;

fn run_driver(driver: &str, requests: &[String]) -> Vec<String> {
    let mut child = Command::new(driver)
        .stdin(Stdio::piped())
        .stdout(Stdio::piped())
        .spawn()
        .expect("cannot start the Lean driver");
    let mut stdin = child.stdin.take().unwrap();
    let reqs: Vec<String> = requests.to_vec();
    let writer = std::thread::spawn(move || {
        for r in reqs {
            let _ = stdin.write_all(r.as_bytes());
            let _ = stdin.write_all(b"\n");
        }
    });
    let out = BufReader::new(child.stdout.take().unwrap());
    let lines: Vec<String> = out.lines().map(|l| l.unwrap_or_default()).collect();
    writer.join().unwrap();
    let _ = child.wait();
    lines
}

fn main() {
    if std::env::var("VERIF_DEBUG").is_err() {
        std::panic::set_hook(Box::new(|_| {}));
    }
    let args: Vec<String> = std::env::args().collect();
    if args.len() < 2 {
        eprintln!("usage: harness run <prop> <tier> <seed> <driver> <out.json> [corpus-file]\n       harness replay <driver> <request-file>");
        std::process::exit(2);
    }
    match args[1].as_str() {
        "run" => run(&args[2..]),
        "replay" => replay(&args[2..]),
        _ => {
            eprintln!("unknown command");
            std::process::exit(2);
        }
    }
}

fn replay(args: &[String]) {
    let driver = &args[0];
    let text = std::fs::read_to_string(&args[1]).expect("cannot read request file");
    let mut ctx = Ctx::new("replay", "quick", 0);
    let mut bad = 0;
    for line in text.lines() {
        let line = line.trim();
        if line.is_empty() || line.starts_with("//") {
            continue;
        }
        let (tol, req) = split_tol(line);
        let imp = exec::exec(&mut ctx, req);
        let model = run_driver(driver, &[req.to_string()]);
        let model = model.get(0).cloned().unwrap_or_default();
        let mut st = OpStats::default();
        let verdict = compare(&imp, &model, tol, &mut st, request_scale(req));
        println!("request: {}", clip(req, 400));
        println!("  impl : {}", clip(&imp, 400));
        println!("  model: {}", clip(&model, 400));
        match verdict {
            None => println!("  agree"),
            Some(r) => {
                bad += 1;
                println!("  DISAGREE: {}", r)
            }
        }
    }
    for f in &ctx.failures {
        bad += 1;
        println!("PROPERTY FAILS on the implementation [{}]: {}\n  input: {}\n  got: {}\n  expected: {}",
            f.key, f.what, clip(&f.input, 400), clip(&f.got, 400), clip(&f.expected, 400));
    }
    std::process::exit(if bad == 0 { 0 } else { 1 });
}

/// corpus / replay lines may start with `@exact`, `@tight` or `@loose`
fn split_tol(line: &str) -> (Tol, &str) {
    if let Some(r) = line.strip_prefix("@exact ") {
        (Tol::Exact, r)
    } else if let Some(r) = line.strip_prefix("@tight ") {
        (Tol::Tight, r)
    } else if let Some(r) = line.strip_prefix("@loose ") {
        (Tol::Loose, r)
    } else {
        (Tol::Tight, line)
    }
}

fn run(args: &[String]) {
    let prop = &args[0];
    let tier = &args[1];
    let seed: u64 = args[2].parse().expect("seed");
    let driver = &args[3];
    let out = &args[4];
    let t0 = std::time::Instant::now();

    let mut ctx = Ctx::new(prop, tier, seed);

    // 1. corpus first
    let mut requests: Vec<(String, Tol, String, bool)> = Vec::new(); // (request, tol, label, nontrivial)
    if let Some(corpus) = args.get(5) {
        if let Ok(text) = std::fs::read_to_string(corpus) {
            for line in text.lines() {
                let line = line.trim();
                if line.is_empty() || line.starts_with("//") {
                    continue;
                }
                let (tol, req) = split_tol(line);
                requests.push((req.to_string(), tol, "corpus".into(), true));
            }
        }
    }
    // 2. deterministic coverage core + seeded random stream: request lines from the generators
    if std::env::var("VERIF_DIRECT_ONLY").is_err() {
        let mut g = gen::Gen::new(&mut ctx);
        gen::generate(&mut g);
        let generated = std::mem::take(&mut g.out);
        drop(g);
        requests.extend(generated);
    } else {
        requests.clear();
    }

    // 3. the implementation on every request (+ property oracles), then the model
    let mut imps = Vec::with_capacity(requests.len());
    for (req, _, label, _) in &requests {
        ctx.label(label);
        ctx.current_request = req.clone();
        imps.push(exec::exec(&mut ctx, req));
    }
    ctx.current_request = String::new();
    // direct (non-protocol) explorations of the implementation
    if std::env::var("VERIF_NO_DIRECT").is_err() {
        ops::direct(&mut ctx);
    }

    let lines: Vec<String> = requests.iter().map(|r| r.0.clone()).collect();
    let models = run_driver(driver, &lines);

    // 4. compare
    let mut stats: BTreeMap<String, OpStats> = BTreeMap::new();
    let mut disagreements: Vec<String> = Vec::new();
    let mut distinct: HashSet<u64> = HashSet::new();
    if models.len() != lines.len() {
        disagreements.push(format!(
            "{{\"op\":\"driver\",\"reason\":{},\"request\":\"\",\"impl\":\"\",\"model\":\"\"}}",
            jstr(&format!("driver answered {} of {} requests", models.len(), lines.len()))
        ));
    }
    for (i, (req, tol, _label, nontrivial)) in requests.iter().enumerate() {
        let op = req.split_whitespace().next().unwrap_or("").to_string();
        let st = stats.entry(op.clone()).or_default();
        let model = models.get(i).cloned().unwrap_or_else(|| "bad missing".into());
        if let Some(reason) = compare(&imps[i], &model, *tol, st, request_scale(req)) {
            if disagreements.len() < 40 {
                disagreements.push(format!(
                    "{{\"op\":{},\"tol\":{},\"reason\":{},\"request\":{},\"impl\":{},\"model\":{}}}",
                    jstr(&op),
                    jstr(&format!("{:?}", tol).to_lowercase()),
                    jstr(&reason),
                    jstr(req),
                    jstr(&clip(&imps[i], 4000)),
                    jstr(&clip(&model, 4000))
                ));
            }
        }
        if *nontrivial {
            distinct.insert(fnv(req));
        }
    }

    // 5. report
    let mut samples = Vec::new();
    let step = (requests.len() / 6).max(1);
    for (i, (req, _, label, _)) in requests.iter().enumerate().step_by(step).take(6) {
        samples.push(format!(
            "{{\"label\":{},\"request\":{},\"impl\":{},\"model\":{}}}",
            jstr(label),
            jstr(&clip(req, 600)),
            jstr(&clip(&imps[i], 600)),
            jstr(&clip(models.get(i).map(|s| s.as_str()).unwrap_or(""), 600))
        ));
    }
    for s in ctx.notes.iter().take(6) {
        samples.push(format!("{{\"direct\":{}}}", jstr(&clip(s, 600))));
    }
    let stats_json: Vec<String> = stats
        .iter()
        .map(|(k, v)| {
            format!(
                "{}:{{\"cases\":{},\"error_outcomes\":{},\"floats\":{},\"bit_exact\":{},\"max_ulp\":{}}}",
                jstr(k), v.cases, v.err_cases, v.floats, v.bit_exact, v.max_ulp
            )
        })
        .collect();
    let labels_json: Vec<String> = ctx.labels.iter().map(|(k, v)| format!("{}:{}", jstr(k), v)).collect();
    let mut per_key: BTreeMap<String, usize> = BTreeMap::new();
    let failures_json: Vec<String> = ctx
        .failures
        .iter()
        .filter(|f| {
            let c = per_key.entry(f.key.clone()).or_insert(0);
            *c += 1;
            *c <= 3
        })
        .take(60)
        .map(|f| {
            format!(
                "{{\"request\":{},\"key\":{},\"what\":{},\"input\":{},\"got\":{},\"expected\":{}}}",
                jstr(&f.request),
                jstr(&f.key),
                jstr(&f.what),
                jstr(&clip(&f.input, 4000)),
                jstr(&clip(&f.got, 2000)),
                jstr(&clip(&f.expected, 2000))
            )
        })
        .collect();
    let json = format!(
        "{{\"property\":{},\"tier\":{},\"seed\":{},\"evaluations\":{},\"distinct_nontrivial\":{},\"oracle_checks\":{},\"direct_evaluations\":{},\"labels\":{{{}}},\"op_stats\":{{{}}},\"samples\":[{}],\"disagreements\":[{}],\"failures\":[{}],\"n_failures\":{},\"exhaustive\":[{}],\"wall_s\":{:.2}}}",
        jstr(prop),
        jstr(tier),
        seed,
        requests.len() as u64 + ctx.direct_evals,
        distinct.len() as u64 + ctx.direct_distinct,
        ctx.oracle_checks,
        ctx.direct_evals,
        labels_json.join(","),
        stats_json.join(","),
        samples.join(","),
        disagreements.join(","),
        failures_json.join(","),
        ctx.failures.len(),
        ctx.exhaustive.iter().map(|s| jstr(s)).collect::<Vec<_>>().join(","),
        t0.elapsed().as_secs_f64()
    );
    std::fs::write(out, json).expect("cannot write result");
}
