//! PRNG, line-protocol rendering, comparison and JSON helpers shared by all property drivers.

use neurons::tensor::{Data, Shape, Tensor};
use std::collections::BTreeMap;
use std::panic::{catch_unwind, AssertUnwindSafe};

/// SplitMix64: every random choice of a run derives from one state.
#[derive(Clone)]
pub struct Rng(pub u64);

impl Rng {
    pub fn new(seed: u64) -> Self {
        Rng(seed ^ 0x9E37_79B9_7F4A_7C15)
    }
    pub fn next(&mut self) -> u64 {
        self.0 = self.0.wrapping_add(0x9E37_79B9_7F4A_7C15);
        let mut z = self.0;
        z = (z ^ (z >> 30)).wrapping_mul(0xBF58_476D_1CE4_E5B9);
        z = (z ^ (z >> 27)).wrapping_mul(0x94D0_49BB_1331_11EB);
        z ^ (z >> 31)
    }
    /// uniform in [0, n)
    pub fn below(&mut self, n: usize) -> usize {
        (self.next() % n as u64) as usize
    }
    /// uniform in [lo, hi]
    pub fn range(&mut self, lo: usize, hi: usize) -> usize {
        lo + self.below(hi - lo + 1)
    }
    pub fn coin(&mut self) -> bool {
        self.next() & 1 == 1
    }
    pub fn pick<T: Clone>(&mut self, xs: &[T]) -> T {
        xs[self.below(xs.len())].clone()
    }
    /// uniform float in [lo, hi)
    pub fn uniform(&mut self, lo: f32, hi: f32) -> f32 {
        let u = (self.next() >> 40) as f32 / (1u64 << 24) as f32;
        lo + (hi - lo) * u
    }
    /// a "generic" value: away from 0, moderate magnitude
    pub fn generic(&mut self) -> f32 {
        let m = self.uniform(0.1, 1.5);
        if self.coin() {
            m
        } else {
            -m
        }
    }
    pub fn vec(&mut self, n: usize) -> Vec<f32> {
        (0..n).map(|_| self.generic()).collect()
    }
    pub fn vec3(&mut self, c: usize, h: usize, w: usize) -> Vec<Vec<Vec<f32>>> {
        (0..c)
            .map(|_| (0..h).map(|_| self.vec(w)).collect())
            .collect()
    }
}

pub const SPECIALS: [u32; 14] = [
    0x0000_0000, // +0
    0x8000_0000, // -0
    0x0000_0001, // min subnormal
    0x807f_ffff, // -max subnormal
    0x0080_0000, // min normal
    0x3f80_0000, // 1
    0xbf80_0000, // -1
    0x7f7f_ffff, // MAX
    0xff7f_ffff, // MIN
    0x7e96_7699, // 1e38
    0x3380_0000, // 2^-24
    0x4b80_0000, // 2^24
    0x3eaa_aaab, // 1/3
    0x4049_0fdb, // pi
];

/* ---------------------------------------------------------------------------------------------
 * rendering (must match lean/Driver.lean)
 * ------------------------------------------------------------------------------------------ */

pub fn hx(x: f32) -> String {
    format!("{:08x}", x.to_bits())
}

/// float in a response: canonical NaN
pub fn rf(x: f32) -> String {
    if x.is_nan() {
        "#7fc00000".to_string()
    } else {
        format!("#{:08x}", x.to_bits())
    }
}

pub fn shape_tok(s: &Shape) -> String {
    match s {
        Shape::Single(n) => format!("S {}", n),
        Shape::Double(r, c) => format!("D {} {}", r, c),
        Shape::Triple(c, h, w) => format!("T {} {} {}", c, h, w),
        Shape::Quadruple(a, b, c, d) => format!("Q {} {} {} {}", a, b, c, d),
        Shape::Nested(n) => format!("N {}", n),
        Shape::Quintuple(..) => "X".to_string(),
    }
}

fn join<T, F: Fn(&T) -> String>(v: &[T], f: F) -> String {
    v.iter().map(|x| f(x)).collect::<Vec<_>>().join(" ")
}

pub fn q1(v: &[f32]) -> String {
    join(v, |x| hx(*x))
}
pub fn q3(v: &Vec<Vec<Vec<f32>>>) -> String {
    join(v, |m| join(m, |r| q1(r)))
}

/// a tensor in a request: the shape token from the *data* (regular tensors only), then hex floats
pub fn qt(t: &Tensor) -> String {
    match &t.data {
        Data::Single(v) => format!("S {} {}", v.len(), q1(v)),
        Data::Double(v) => format!(
            "D {} {} {}",
            v.len(),
            v.first().map_or(0, |r| r.len()),
            join(v, |r| q1(r))
        ),
        Data::Triple(v) => format!(
            "T {} {} {} {}",
            v.len(),
            v.first().map_or(0, |m| m.len()),
            v.first().and_then(|m| m.first()).map_or(0, |r| r.len()),
            q3(v)
        ),
        Data::Quadruple(v) => format!(
            "Q {} {} {} {} {}",
            v.len(),
            v.first().map_or(0, |m| m.len()),
            v.first().and_then(|m| m.first()).map_or(0, |r| r.len()),
            v.first()
                .and_then(|m| m.first())
                .and_then(|r| r.first())
                .map_or(0, |r| r.len()),
            join(v, |c| q3(c))
        ),
        _ => panic!("qt: unsupported tensor kind"),
    }
}

pub fn r1(v: &[f32]) -> String {
    join(v, |x| rf(*x))
}
pub fn r2(v: &Vec<Vec<f32>>) -> String {
    join(v, |r| r1(r))
}
pub fn r3(v: &Vec<Vec<Vec<f32>>>) -> String {
    join(v, |m| r2(m))
}
pub fn r4(v: &Vec<Vec<Vec<Vec<f32>>>>) -> String {
    join(v, |m| r3(m))
}

pub fn lens2(v: &Vec<Vec<f32>>) -> String {
    format!("{:?}", v.iter().map(|r| r.len()).collect::<Vec<_>>())
}
pub fn lens3(v: &Vec<Vec<Vec<f32>>>) -> String {
    format!(
        "{:?}",
        v.iter()
            .map(|m| m.iter().map(|r| r.len()).collect::<Vec<_>>())
            .collect::<Vec<_>>()
    )
}
pub fn lens4(v: &Vec<Vec<Vec<Vec<f32>>>>) -> String {
    format!(
        "{:?}",
        v.iter()
            .map(|c| c
                .iter()
                .map(|m| m.iter().map(|r| r.len()).collect::<Vec<_>>())
                .collect::<Vec<_>>())
            .collect::<Vec<_>>()
    )
}

/// a tensor in a response (mirror of `rTensor` in the driver)
pub fn rt(t: &Tensor) -> String {
    match &t.data {
        Data::Single(v) => format!("{} [1 {}] {}", shape_tok(&t.shape), v.len(), r1(v)),
        Data::Double(v) => format!(
            "{} [2 {} {}] {}",
            shape_tok(&t.shape),
            v.len(),
            lens2(v),
            r2(v)
        ),
        Data::Triple(v) => format!(
            "{} [3 {} {}] {}",
            shape_tok(&t.shape),
            v.len(),
            lens3(v),
            r3(v)
        ),
        Data::Quadruple(v) => format!(
            "{} [4 {} {}] {}",
            shape_tok(&t.shape),
            v.len(),
            lens4(v),
            r4(v)
        ),
        _ => "unsupported".to_string(),
    }
}

pub fn rot(t: &Option<Tensor>) -> String {
    match t {
        None => "none".to_string(),
        Some(t) => rt(t),
    }
}

pub fn rv3(v: &Vec<Vec<Vec<f32>>>) -> String {
    format!("{} {} {}", v.len(), lens3(v), r3(v))
}

/// run a piece of library code, mapping a panic to `err`
pub fn guarded<F: FnOnce() -> String>(f: F) -> String {
    match catch_unwind(AssertUnwindSafe(f)) {
        Ok(s) => format!("ok {}", s),
        Err(e) => {
            let msg = if let Some(s) = e.downcast_ref::<String>() {
                s.clone()
            } else if let Some(s) = e.downcast_ref::<&str>() {
                s.to_string()
            } else {
                "panic".to_string()
            };
            format!("err {}", classify_panic(&msg))
        }
    }
}

pub fn classify_panic(msg: &str) -> &'static str {
    if msg.contains("overflow") {
        "arith"
    } else if msg.contains("index out of bounds")
        || msg.contains("out of range")
        || msg.contains("`None` value")
        || msg.contains("out of bounds")
    {
        "index"
    } else if msg.contains("left == right") || msg.contains("same number of elements") {
        "shape"
    } else if msg.contains("not implemented") || msg.contains("not yet implemented") {
        "unimplemented"
    } else if msg.contains("NaN") {
        "nan"
    } else {
        "reject"
    }
}

/* ---------------------------------------------------------------------------------------------
 * comparison
 * ------------------------------------------------------------------------------------------ */

#[derive(Clone, Copy, PartialEq, Debug)]
pub enum Tol {
    Exact,
    Tight,
    Loose,
}

fn parse_f(tok: &str) -> Option<f32> {
    if let Some(h) = tok.strip_prefix('#') {
        u32::from_str_radix(h, 16).ok().map(f32::from_bits)
    } else {
        None
    }
}

fn ulps(a: f32, b: f32) -> u64 {
    fn key(x: f32) -> i64 {
        let b = x.to_bits() as i64;
        if b & 0x8000_0000 != 0 {
            -(b & 0x7fff_ffff)
        } else {
            b
        }
    }
    (key(a) - key(b)).unsigned_abs()
}

#[derive(Default, Clone)]
pub struct OpStats {
    pub cases: u64,
    pub floats: u64,
    pub bit_exact: u64,
    pub max_ulp: u64,
    pub err_cases: u64,
}

/// `None` = agree; `Some(reason)` = disagree.  With `err_class` false only ok/err is compared.
/// the magnitude of a request's floating-point operands (its 8-hex-digit tokens), capped at 1: an
/// output that is small only because large terms cancelled is still only known to about `eps * operands`
pub fn request_scale(req: &str) -> f32 {
    let m = req
        .split_whitespace()
        .filter(|t| t.len() == 8 && t.chars().all(|c| c.is_ascii_hexdigit()) && t.chars().any(|c| c.is_ascii_alphabetic()))
        .filter_map(|t| u32::from_str_radix(t, 16).ok())
        .map(f32::from_bits)
        .filter(|x| x.is_finite())
        .fold(0.0f32, |m, x| m.max(x.abs()));
    m.min(1.0)
}

pub fn compare(imp: &str, model: &str, tol: Tol, st: &mut OpStats, scale: f32) -> Option<String> {
    st.cases += 1;
    let a: Vec<&str> = imp.split_whitespace().collect();
    let b: Vec<&str> = model.split_whitespace().collect();
    if a.is_empty() || b.is_empty() {
        return Some("empty response".into());
    }
    if a[0] == "err" || b[0] == "err" {
        st.err_cases += 1;
        return if a[0] == b[0] {
            None
        } else {
            Some(format!("outcome differs: impl `{}` model `{}`", first_words(imp), first_words(model)))
        };
    }
    if a[0] != "ok" || b[0] != "ok" {
        return Some(format!("malformed response: impl `{}` model `{}`", first_words(imp), first_words(model)));
    }
    if a.len() != b.len() {
        return Some(format!("length differs: impl {} tokens, model {} tokens", a.len(), b.len()));
    }
    let norm = a
        .iter()
        .filter_map(|t| parse_f(t))
        .filter(|x| x.is_finite())
        .fold(0.0f32, |m, x| m.max(x.abs()))
        .max(scale);
    for (i, (x, y)) in a.iter().zip(b.iter()).enumerate() {
        match (parse_f(x), parse_f(y)) {
            (Some(p), Some(q)) => {
                st.floats += 1;
                let same_bits = p.to_bits() == q.to_bits() || (p == 0.0 && q == 0.0);
                if same_bits {
                    st.bit_exact += 1;
                    continue;
                }
                if !p.is_finite() || !q.is_finite() {
                    return Some(format!("token {}: non-finite class differs: impl {} model {}", i, p, q));
                }
                let u = ulps(p, q);
                if u > st.max_ulp {
                    st.max_ulp = u;
                }
                let d = (p as f64 - q as f64).abs();
                let ok = match tol {
                    Tol::Exact => false,
                    Tol::Tight => d <= 2e-5 * norm as f64 + 1e-30,
                    Tol::Loose => d <= 1e-3 * norm as f64 + 1e-30,
                };
                if !ok {
                    return Some(format!(
                        "token {}: impl {:e} ({}) model {:e} ({}) differ by {} ulp (class {:?})",
                        i, p, x, q, y, u, tol
                    ));
                }
            }
            (None, None) => {
                if x != y {
                    return Some(format!("token {}: impl `{}` model `{}`", i, x, y));
                }
            }
            _ => return Some(format!("token {}: kind differs: impl `{}` model `{}`", i, x, y)),
        }
    }
    None
}

pub fn first_words(s: &str) -> String {
    s.split_whitespace().take(6).collect::<Vec<_>>().join(" ")
}

/* ---------------------------------------------------------------------------------------------
 * cases, oracle failures, run context
 * ------------------------------------------------------------------------------------------ */

pub struct Case {
    pub op: String,
    pub request: String,
    pub imp: String,
    pub tol: Tol,
    pub label: String,
    pub nontrivial: bool,
}

/// The property itself fails on the implementation (independent of the model).
#[derive(Clone)]
pub struct Failure {
    pub request: String,
    pub key: String,
    pub what: String,
    pub input: String,
    pub got: String,
    pub expected: String,
}

pub struct Ctx {
    pub prop: String,
    pub tier: String,
    pub seed: u64,
    pub rng: Rng,
    pub cases: Vec<Case>,
    pub failures: Vec<Failure>,
    pub labels: BTreeMap<String, u64>,
    pub oracle_checks: u64,
    pub notes: Vec<String>,
    pub exhaustive: Vec<String>,
    pub direct_evals: u64,
    pub direct_distinct: u64,
    pub current_request: String,
}

impl Ctx {
    pub fn new(prop: &str, tier: &str, seed: u64) -> Self {
        Ctx {
            prop: prop.to_string(),
            tier: tier.to_string(),
            seed,
            rng: Rng::new(seed),
            cases: Vec::new(),
            failures: Vec::new(),
            labels: BTreeMap::new(),
            oracle_checks: 0,
            notes: Vec::new(),
            exhaustive: Vec::new(),
            direct_evals: 0,
            direct_distinct: 0,
            current_request: String::new(),
        }
    }
    pub fn thorough(&self) -> bool {
        self.tier == "thorough"
    }
    /// quick count vs thorough count
    pub fn n(&self, quick: usize, thorough: usize) -> usize {
        if self.thorough() {
            thorough
        } else {
            quick
        }
    }
    pub fn case(&mut self, op: &str, args: String, imp: String, tol: Tol, label: &str, nontrivial: bool) {
        *self.labels.entry(label.to_string()).or_insert(0) += 1;
        self.cases.push(Case {
            op: op.to_string(),
            request: format!("{} {}", op, args),
            imp,
            tol,
            label: label.to_string(),
            nontrivial,
        });
    }
    pub fn label(&mut self, label: &str) {
        *self.labels.entry(label.to_string()).or_insert(0) += 1;
    }
    /// record one evaluation of a property-level oracle on the implementation
    pub fn oracle(&mut self, ok: bool, key: &str, what: &str, input: String, got: String, expected: String) {
        self.oracle_checks += 1;
        if !ok {
            self.failures.push(Failure {
                request: self.current_request.clone(),
                key: key.to_string(),
                what: what.to_string(),
                input,
                got,
                expected,
            });
        }
    }
}

pub fn jstr(s: &str) -> String {
    let mut o = String::with_capacity(s.len() + 2);
    o.push('"');
    for c in s.chars() {
        match c {
            '"' => o.push_str("\\\""),
            '\\' => o.push_str("\\\\"),
            '\n' => o.push_str("\\n"),
            '\t' => o.push_str("\\t"),
            '\r' => o.push_str("\\r"),
            c if (c as u32) < 0x20 => o.push_str(&format!("\\u{:04x}", c as u32)),
            c => o.push(c),
        }
    }
    o.push('"');
    o
}

pub fn clip(s: &str, n: usize) -> String {
    if s.len() <= n {
        s.to_string()
    } else {
        let mut end = n;
        while !s.is_char_boundary(end) {
            end -= 1;
        }
        format!("{}…(+{} bytes)", &s[..end], s.len() - end)
    }
}

pub fn fnv(s: &str) -> u64 {
    let mut h: u64 = 0xcbf29ce484222325;
    for b in s.as_bytes() {
        h ^= *b as u64;
        h = h.wrapping_mul(0x100000001b3);
    }
    h
}
